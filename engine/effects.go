package main

// Syntactic over-approximation of what a piece of code may modify: used to
// havoc at loop headers and at calls of functions under contract (the frame
// of a callee is inferred, never hand-written).

import (
	"go/types"
	"strings"

	"golang.org/x/tools/go/ssa"
)

type Effects struct {
	all    bool            // re-entrant callback or unknown code: everything
	heaps  map[string]Sort // heap name -> sort
	roots  map[ssa.Value]bool // Allocs / FreeVars written (by Store)
	iters  map[ssa.Value]bool // range iterators advanced
	locks  map[string]bool    // lock names acquired
	why    string
}

func newEffects() *Effects {
	return &Effects{heaps: map[string]Sort{}, roots: map[ssa.Value]bool{}, iters: map[ssa.Value]bool{}, locks: map[string]bool{}}
}

func (e *Effects) merge(o *Effects) {
	if o.all {
		e.all = true
		if e.why == "" {
			e.why = o.why
		}
	}
	for k, v := range o.heaps {
		e.heaps[k] = v
	}
	for k := range o.locks {
		e.locks[k] = true
	}
}

// rootOf follows FieldAddr/IndexAddr chains to the root address value.
func rootOf(v ssa.Value) ssa.Value {
	for {
		switch x := v.(type) {
		case *ssa.FieldAddr:
			v = x.X
		case *ssa.IndexAddr:
			v = x.X
		default:
			return v
		}
	}
}

func (u *Unit) addrEffect(e *Effects, addr ssa.Value) {
	switch x := addr.(type) {
	case *ssa.Alloc:
		e.roots[x] = true
		et := x.Type().(*types.Pointer).Elem()
		if _, ok := et.Underlying().(*types.Struct); ok && x.Heap && !isOpaqueStruct(et) {
			u.structHeaps(e, et)
		}
	case *ssa.FreeVar:
		e.roots[x] = true
	case *ssa.FieldAddr:
		pt := x.X.Type().Underlying().(*types.Pointer).Elem()
		root := rootOf(x)
		switch r := root.(type) {
		case *ssa.Alloc:
			et := r.Type().(*types.Pointer).Elem()
			if _, ok := et.Underlying().(*types.Struct); ok && r.Heap && !isOpaqueStruct(et) {
				// heap object
			} else {
				e.roots[r] = true
				return
			}
		case *ssa.FreeVar:
			e.roots[r] = true
			return
		}
		// field of a heap object: find the outermost struct owning the field
		fa := x
		for {
			if inner, ok := fa.X.(*ssa.FieldAddr); ok {
				fa = inner
				continue
			}
			break
		}
		pt = fa.X.Type().Underlying().(*types.Pointer).Elem()
		hn, hs, _ := u.fieldHeapName(pt, fa.Field)
		e.heaps[hn] = hs
	case *ssa.IndexAddr:
		switch xt := x.X.Type().Underlying().(type) {
		case *types.Slice:
			hn, hs := elemHeapName(u.sortOf(xt.Elem()))
			e.heaps[hn] = hs
		default:
			u.addrEffect(e, x.X)
		}
	case *ssa.Parameter, *ssa.UnOp, *ssa.Call, *ssa.Extract, *ssa.Phi:
		pt, ok := x.Type().Underlying().(*types.Pointer)
		if !ok {
			e.all, e.why = true, "store through non-pointer"
			return
		}
		if _, ok := pt.Elem().Underlying().(*types.Struct); ok && !isOpaqueStruct(pt.Elem()) {
			u.structHeaps(e, pt.Elem())
		} else {
			hn, hs := derefHeapName(u.sortOf(pt.Elem()))
			e.heaps[hn] = hs
			for _, af := range u.aliasedFields(pt.Elem()) {
				fhn, fhs, _ := u.fieldHeapName(af.styp, af.field)
				e.heaps[fhn] = fhs
			}
		}
	case *ssa.Global:
		e.heaps["G!"+smtName(x.String())] = u.sortOf(x.Type().(*types.Pointer).Elem())
	default:
		e.all, e.why = true, "store through unknown address"
	}
}

func (u *Unit) structHeaps(e *Effects, t types.Type) {
	st := t.Underlying().(*types.Struct)
	for i := 0; i < st.NumFields(); i++ {
		hn, hs, _ := u.fieldHeapName(t, i)
		e.heaps[hn] = hs
	}
}

func (u *Unit) allocEffects(e *Effects) {
	e.heaps["alloc"] = ArrSort(SInt, SBool)
}

// effectsOfBlocks computes the effects of a set of blocks of fn.
func (u *Unit) effectsOfBlocks(fn *ssa.Function, blocks map[*ssa.BasicBlock]bool, visited map[*ssa.Function]bool) *Effects {
	e := newEffects()
	for _, b := range fn.Blocks {
		if blocks != nil && !blocks[b] {
			continue
		}
		for _, in := range b.Instrs {
			switch x := in.(type) {
			case *ssa.Store:
				u.addrEffect(e, x.Addr)
			case *ssa.MapUpdate:
				_, _, ks, vs := u.mapParts(x.Map.Type())
				dn, ds, vn, vsrt := mapHeapNames(ks, vs)
				e.heaps[dn], e.heaps[vn] = ds, vsrt
			case *ssa.Alloc:
				et := x.Type().(*types.Pointer).Elem()
				if _, ok := et.Underlying().(*types.Struct); ok && x.Heap && !isOpaqueStruct(et) {
					u.structHeaps(e, et)
					u.allocEffects(e)
				}
			case *ssa.MakeSlice:
				if !isByteSlice(x.Type()) {
					hn, hs := elemHeapName(u.sortOf(x.Type().Underlying().(*types.Slice).Elem()))
					e.heaps[hn] = hs
					u.allocEffects(e)
				}
			case *ssa.MakeMap:
				_, _, ks, vs := u.mapParts(x.Type())
				dn, ds, _, _ := mapHeapNames(ks, vs)
				e.heaps[dn] = ds
				u.allocEffects(e)
			case *ssa.MakeChan:
				u.allocEffects(e)
			case *ssa.Next:
				e.iters[x.Iter] = true
			case *ssa.Call:
				u.callEffects(e, &x.Call, visited, fn)
			case *ssa.Defer:
				u.callEffects(e, &x.Call, visited, fn)
			case *ssa.Go:
				// the goroutine's effects are not the spawner's
			case *ssa.Select:
				// ctx oracle only
			case *ssa.MakeClosure:
				// creating a closure has no effect; calling it does (callEffects)
			}
		}
	}
	return e
}

func (u *Unit) callEffects(e *Effects, cc *ssa.CallCommon, visited map[*ssa.Function]bool, caller *ssa.Function) {
	if cc.IsInvoke() {
		name := u.typeName(cc.Value.Type()) + "." + cc.Method.Name()
		if pureMethodStubs[name] {
			return
		}
		if strings.HasSuffix(name, ".Scan") {
			for _, a := range cc.Args {
				markAddrTaken(u, e, a)
			}
			return
		}
		if name == "hash.Hash32.Write" {
			e.heaps["G!fnv"] = ArrSort(SInt, SStr)
			return
		}
		if fs := u.eng.spec.Methods[name]; fs != nil {
			u.specEffect(e, fs, name)
			return
		}
		e.all, e.why = true, "invoke "+name
		return
	}
	switch c := cc.Value.(type) {
	case *ssa.Builtin:
		switch c.Name() {
		case "append", "copy":
			if st, ok := cc.Args[0].Type().Underlying().(*types.Slice); ok && !isByteSlice(cc.Args[0].Type()) {
				hn, hs := elemHeapName(u.sortOf(st.Elem()))
				e.heaps[hn] = hs
				u.allocEffects(e)
			}
		case "delete":
			_, _, ks, vs := u.mapParts(cc.Args[0].Type())
			dn, ds, _, _ := mapHeapNames(ks, vs)
			e.heaps[dn] = ds
		}
		return
	case *ssa.Function:
		u.funcEffects(e, c, cc, visited)
		return
	case *ssa.MakeClosure:
		fn := c.Fn.(*ssa.Function)
		sub := u.effectsOfFunc(fn, visited)
		e.merge(sub)
		// writes to captured variables map back to the bindings
		for i, fv := range fn.FreeVars {
			if sub.roots[fv] && i < len(c.Bindings) {
				e.roots[rootOf(c.Bindings[i])] = true
			}
		}
		return
	}
	// dynamic call of a function value
	name := u.typeName(cc.Value.Type())
	if fs := u.eng.spec.Callbacks[name]; fs != nil {
		u.specEffect(e, fs, name)
		return
	}
	// calling a closure held in a local variable: look for its definition
	if cl := closureDef(cc.Value); cl != nil {
		fn := cl.Fn.(*ssa.Function)
		sub := u.effectsOfFunc(fn, visited)
		e.merge(sub)
		for i, fv := range fn.FreeVars {
			if sub.roots[fv] && i < len(cl.Bindings) {
				e.roots[rootOf(cl.Bindings[i])] = true
			}
		}
		return
	}
	e.all, e.why = true, "dynamic call "+name
}

func closureDef(v ssa.Value) *ssa.MakeClosure {
	if mc, ok := v.(*ssa.MakeClosure); ok {
		return mc
	}
	return nil
}

func (u *Unit) specEffect(e *Effects, fs *FuncSpec, name string) {
	// ghost heap entries the contract says the callee modifies
	for _, m := range fs.Modifies {
		gn := m
		if i := strings.Index(gn, "("); i >= 0 {
			gn = gn[:i]
		}
		gn = strings.TrimSpace(gn)
		if gh, ok := u.eng.spec.GhostHeaps[gn]; ok {
			e.heaps["G!"+gh.Name] = ArrSort(gh.Key, gh.Val)
		}
	}
	switch fs.Effect {
	case "pure", "opaque":
	default:
		if strings.HasPrefix(fs.Effect, "fields ") {
			parts := strings.Fields(fs.Effect)
			// the struct is found by field name among the package's structs
			for _, f := range parts[2:] {
				for _, sn := range u.pkg.Pkg.Scope().Names() {
					t := u.eng.lookupStruct(u.pkg, sn)
					if t == nil {
						continue
					}
					stt := t.Underlying().(*types.Struct)
					for i := 0; i < stt.NumFields(); i++ {
						if stt.Field(i).Name() == f && fs.EffectStruct == sn {
							hn, hs, _ := u.fieldHeapName(t, i)
							e.heaps[hn] = hs
						}
					}
				}
			}
			return
		}
		e.all, e.why = true, "callback "+name
	}
}

func (u *Unit) funcEffects(e *Effects, fn *ssa.Function, cc *ssa.CallCommon, visited map[*ssa.Function]bool) {
	full := fn.String()
	if o := fn.Origin(); o != nil {
		full = o.String()
		fn = o
	}
	if eff, ok := stubEffects[full]; ok {
		switch eff {
		case "none":
		case "alloc":
			u.allocEffects(e)
		case "lock":
			if len(cc.Args) > 0 {
				if fa, ok := cc.Args[0].(*ssa.FieldAddr); ok {
					pt := fa.X.Type().Underlying().(*types.Pointer).Elem()
					name := structName(pt) + "." + pt.Underlying().(*types.Struct).Field(fa.Field).Name()
					e.locks[name] = true
					u.lockHeaps(e, name)
				}
			}
		case "cas":
			if len(cc.Args) > 0 {
				u.addrEffect(e, cc.Args[0])
			}
		case "unmarshal", "scan":
			// writes through the pointers it is given: they are locals or fresh
			// objects in this code base; handled at the call by the stub.
			e.heaps["D!Int"] = ArrSort(SInt, SInt)
			e.heaps["D!String"] = ArrSort(SInt, SStr)
			for _, a := range cc.Args {
				markAddrTaken(u, e, a)
			}
		case "fnv":
			e.heaps["G!fnv"] = ArrSort(SInt, SStr)
			u.allocEffects(e)
		case "all":
			e.all, e.why = true, "stub "+full
		}
		return
	}
	if fs := u.lookupFuncSpec(fn); fs != nil && fs.Trusted {
		u.specEffect(e, fs, full)
		if fs.Effect == "" {
			e.all = false
		}
		return
	}
	if len(fn.Blocks) == 0 {
		e.all, e.why = true, "no body: "+full
		return
	}
	sub := u.effectsOfFunc(fn, visited)
	e.merge(sub)
}

// markAddrTaken: variables whose address flows into a varargs/any argument.
func markAddrTaken(u *Unit, e *Effects, v ssa.Value) {
	switch x := v.(type) {
	case *ssa.MakeInterface:
		markAddrTaken(u, e, x.X)
	case *ssa.Alloc, *ssa.FieldAddr, *ssa.IndexAddr, *ssa.FreeVar:
		u.addrEffect(e, x)
	case *ssa.Slice:
		// varargs slice: find the stores into the backing array literal
		if al, ok := x.X.(*ssa.Alloc); ok {
			for _, ref := range *al.Referrers() {
				if ia, ok := ref.(*ssa.IndexAddr); ok {
					for _, r2 := range *ia.Referrers() {
						if s, ok := r2.(*ssa.Store); ok {
							markAddrTaken(u, e, s.Val)
						}
					}
				}
			}
		}
	}
}

func (u *Unit) effectsOfFunc(fn *ssa.Function, visited map[*ssa.Function]bool) *Effects {
	if visited[fn] {
		return newEffects()
	}
	visited[fn] = true
	e := u.effectsOfBlocks(fn, nil, visited)
	// ghost updates stated in the function's contract
	if fs := u.lookupFuncSpec(fn); fs != nil {
		for _, c := range fs.Asserts {
			if c.GhostTarget == "" {
				continue
			}
			gn := c.GhostTarget
			if i := strings.Index(gn, "("); i >= 0 {
				gn = gn[:i]
			}
			if gh, ok := u.eng.spec.GhostHeaps[gn]; ok {
				e.heaps["G!"+gh.Name] = ArrSort(gh.Key, gh.Val)
			}
		}
	}
	return e
}

// lockHeaps: acquiring a lock havocs what it guards.
func (u *Unit) lockHeaps(e *Effects, lockName string) {
	for _, g := range u.eng.spec.Guarded {
		if g.MuStruct+"."+g.Mu != lockName {
			continue
		}
		t := u.eng.lookupStruct(u.pkg, g.Struct)
		if t == nil {
			continue
		}
		st := t.Underlying().(*types.Struct)
		for i := 0; i < st.NumFields(); i++ {
			if st.Field(i).Name() == g.Field {
				hn, hs, _ := u.fieldHeapName(t, i)
				e.heaps[hn] = hs
				u.derivedHeaps(e.heaps, st.Field(i).Type(), 0)
			}
		}
	}
}

// derivedHeaps: container heaps reachable from a guarded field's type.
func (u *Unit) derivedHeaps(out map[string]Sort, t types.Type, depth int) {
	if depth > 3 {
		return
	}
	switch x := t.Underlying().(type) {
	case *types.Map:
		ks, vs := u.sortOf(x.Key()), u.sortOf(x.Elem())
		dn, ds, vn, vsrt := mapHeapNames(ks, vs)
		out[dn], out[vn] = ds, vsrt
		u.derivedHeaps(out, x.Elem(), depth+1)
	case *types.Slice:
		if !isByteSlice(t) {
			hn, hs := elemHeapName(u.sortOf(x.Elem()))
			out[hn] = hs
			u.derivedHeaps(out, x.Elem(), depth+1)
		}
	}
}

type modset struct {
	all   bool
	heaps map[string]Sort
}

// modsetOf: inferred frame of a function under contract.
func (e *Engine) modsetOf(u *Unit, name string) modset {
	fn := e.funcByName(u.pkg, name)
	if fn == nil {
		return modset{all: true}
	}
	eff := u.effectsOfFunc(fn, map[*ssa.Function]bool{})
	return modset{all: eff.all, heaps: eff.heaps}
}

func (u *Unit) lookupFuncSpec(fn *ssa.Function) *FuncSpec {
	if fs := u.eng.spec.Funcs[relName(fn)]; fs != nil && fn.Pkg == u.pkg {
		return fs
	}
	full := fn.String()
	if fs := u.eng.spec.Funcs[full]; fs != nil {
		return fs
	}
	if fn.Pkg != nil {
		if fs := u.eng.spec.Funcs[fn.Pkg.Pkg.Name()+"."+relName(fn)]; fs != nil {
			return fs
		}
	}
	return nil
}

var pureMethodStubs = map[string]bool{
	"context.Context.Done": true, "context.Context.Err": true, "context.Context.Value": true,
	"reflect.Type.Elem": true, "reflect.Type.String": true, "reflect.Type.Kind": true, "reflect.Type.NumIn": true,
	"error.Error": true, "hash.Hash32.Sum32": true, "TypeNamer.EventTypeName": true,
}

// stubEffects: effects of library functions modelled by stubs.
var stubEffects = map[string]string{
	"fmt.Errorf": "none", "fmt.Sprintf": "none", "time.Now": "none", "time.Since": "none",
	"reflect.TypeOf": "none", "reflect.ValueOf": "none", "(reflect.Value).Pointer": "none",
	"reflect.New": "none", "reflect.Zero": "none", "(reflect.Value).Interface": "none",
	"(reflect.Value).Call":        "all",
	"encoding/json.Marshal":       "none",
	"encoding/json.Unmarshal":     "unmarshal",
	"(*database/sql.Row).Scan":    "scan", "(*database/sql.Rows).Scan": "scan",
	"(*sync.RWMutex).Lock":        "lock", "(*sync.RWMutex).RLock": "lock", "(*sync.RWMutex).Unlock": "none", "(*sync.RWMutex).RUnlock": "none",
	"(*sync.Mutex).Lock":          "lock", "(*sync.Mutex).Unlock": "none",
	"(*sync.WaitGroup).Add":       "none", "(*sync.WaitGroup).Done": "none", "(*sync.WaitGroup).Wait": "none",
	"sync/atomic.CompareAndSwapUint32": "cas",
	"context.WithTimeout":         "none", "context.Background": "none", "context.WithValue": "none",
	"errors.New":                  "none", "errors.Is": "none",
	"strconv.ParseInt":            "none", "strconv.FormatInt": "none", "strings.Contains": "none",
	"hash/fnv.New32a":             "fnv",
	"(time.Time).IsZero":          "none", "(time.Time).Format": "none", "(time.Time).UTC": "none", "time.Parse": "none",
	"(time.Duration).Milliseconds": "none",
}

func hasPrefixAny(s string, ps ...string) bool {
	for _, p := range ps {
		if strings.HasPrefix(s, p) {
			return true
		}
	}
	return false
}
