package eventbus

// Replay driver for C16 (injected with `go test -overlay`).

import (
	"context"
	"encoding/json"
	"testing"
	"time"
)

func TestVerifReplayC16(t *testing.T) {
	// (1) termination: a raw upcaster A->B that returns type "A" again
	bus := New(WithStore(NewMemoryStore()))
	calls := 0
	if err := RegisterUpcastFunc(bus, "A", "B", func(d json.RawMessage) (json.RawMessage, string, error) {
		calls++
		if calls > 1000 {
			panic("verif: upcast chain does not terminate (more than 1000 applications)")
		}
		return d, "A", nil
	}); err != nil {
		t.Fatal(err)
	}
	done := make(chan struct{})
	go func() {
		defer func() {
			if r := recover(); r != nil {
				t.Errorf("apply: %v", r)
			}
			close(done)
		}()
		bus.upcastRegistry.apply(json.RawMessage(`{}`), "A")
	}()
	select {
	case <-done:
	case <-time.After(10 * time.Second):
		t.Fatal("apply did not terminate within 10s")
	}
	// (2) registration rejects exactly: empty names, self loops, nil function, cycles
	b2 := New()
	f := func(d json.RawMessage) (json.RawMessage, string, error) { return d, "", nil }
	cases := []struct {
		from, to string
		fn       UpcastFunc
		ok       bool
	}{{"", "B", f, false}, {"A", "", f, false}, {"A", "A", f, false}, {"A", "B", nil, false},
		{"A", "B", f, true}, {"B", "C", f, true}, {"C", "A", f, false}, {"C", "D", f, true}, {"A", "D", f, true}, {"D", "B", f, false}}
	for i, c := range cases {
		err := RegisterUpcastFunc(b2, c.from, c.to, c.fn)
		if (err == nil) != c.ok {
			t.Errorf("case %d: register(%q,%q) err=%v, want ok=%v", i, c.from, c.to, err, c.ok)
		}
	}
	_ = context.Background
}
