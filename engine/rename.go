package main

import (
	"encoding/json"
	"go/types"
	"os"
	"path/filepath"
	"sort"
	"sync"

	"golang.org/x/tools/go/ssa"
)

// Rename tolerance.  Contracts name parameters and local variables of the functions they
// describe.  /verif/expected/locals.json records, for every function under contract on the
// unchanged tree, its parameter names and its named locals (name, type) in declaration order.
// When the current function has a name the snapshot does not know and lacks one the snapshot
// has, and the two lists pair up one to one with equal types, the old name is treated as an
// alias of the new one (a pure rename); the evidence notes every alias used.

type fnNames struct {
	Params []string    `json:"params"`
	Locals [][2]string `json:"locals"`
}

var (
	namesOnce sync.Once
	namesSnap map[string]map[string]fnNames // package dir -> function -> names
	namesMu   sync.Mutex
)

func namesFile() string { return filepath.Join(verifRoot, "expected", "locals.json") }

func loadNamesSnapshot() {
	namesOnce.Do(func() {
		namesSnap = map[string]map[string]fnNames{}
		if data, err := os.ReadFile(namesFile()); err == nil {
			json.Unmarshal(data, &namesSnap)
		}
	})
}

func currentNames(fn *ssa.Function) fnNames {
	var out fnNames
	for _, p := range fn.Params {
		out.Params = append(out.Params, p.Name())
	}
	seen := map[string]bool{}
	for _, b := range fn.Blocks {
		for _, in := range b.Instrs {
			if al, ok := in.(*ssa.Alloc); ok && al.Comment != "" && isSourceName(al.Comment) && !seen[al.Comment] {
				seen[al.Comment] = true
				out.Locals = append(out.Locals, [2]string{al.Comment, types.TypeString(al.Type().(*types.Pointer).Elem(), nil)})
			}
		}
	}
	return out
}

// isSourceName: the alloc comment is a variable of the source (not a compiler temporary).
func isSourceName(s string) bool {
	switch s {
	case "complit", "varargs", "makeslice", "slicelit", "new", "rangeiter":
		return false
	}
	for _, r := range s {
		if !(r == '_' || r >= '0' && r <= '9' || r >= 'a' && r <= 'z' || r >= 'A' && r <= 'Z') {
			return false
		}
	}
	return true
}

// recordNames stores the names of fn in the snapshot (used with -update-expected).
func recordNames(dir, name string, fn *ssa.Function) {
	loadNamesSnapshot()
	namesMu.Lock()
	defer namesMu.Unlock()
	if namesSnap[dir] == nil {
		namesSnap[dir] = map[string]fnNames{}
	}
	namesSnap[dir][name] = currentNames(fn)
}

func saveNamesSnapshot() {
	namesMu.Lock()
	defer namesMu.Unlock()
	// stable output
	out := map[string]map[string]fnNames{}
	var dirs []string
	for d := range namesSnap {
		dirs = append(dirs, d)
	}
	sort.Strings(dirs)
	for _, d := range dirs {
		out[d] = namesSnap[d]
	}
	data, _ := json.MarshalIndent(out, "", " ")
	os.MkdirAll(filepath.Dir(namesFile()), 0o755)
	os.WriteFile(namesFile(), append(data, '\n'), 0o644)
}

// renameAliases: old name -> new name for fn, or nil.
func renameAliases(dir, name string, fn *ssa.Function) map[string]string {
	loadNamesSnapshot()
	namesMu.Lock()
	snap, ok := namesSnap[dir][name]
	namesMu.Unlock()
	if !ok {
		return nil
	}
	cur := currentNames(fn)
	al := map[string]string{}
	if len(snap.Params) == len(cur.Params) {
		for i := range snap.Params {
			if snap.Params[i] != cur.Params[i] && snap.Params[i] != "" && cur.Params[i] != "" {
				al[snap.Params[i]] = cur.Params[i]
			}
		}
	}
	curSet, oldSet := map[string]bool{}, map[string]bool{}
	for _, l := range cur.Locals {
		curSet[l[0]] = true
	}
	for _, l := range snap.Locals {
		oldSet[l[0]] = true
	}
	var gone, added [][2]string
	for _, l := range snap.Locals {
		if !curSet[l[0]] {
			gone = append(gone, l)
		}
	}
	for _, l := range cur.Locals {
		if !oldSet[l[0]] {
			added = append(added, l)
		}
	}
	if len(gone) == len(added) {
		okAll := true
		for i := range gone {
			if gone[i][1] != added[i][1] {
				okAll = false
			}
		}
		if okAll {
			for i := range gone {
				al[gone[i][0]] = added[i][0]
			}
		}
	}
	if len(al) == 0 {
		return nil
	}
	return al
}

// snapshotHasLocal: on the unchanged tree the function had a source local (or parameter) of this name.
// Without a snapshot for the function the answer is true (no protection).
func snapshotHasLocal(dir, fn, name string) bool {
	loadNamesSnapshot()
	namesMu.Lock()
	defer namesMu.Unlock()
	snap, ok := namesSnap[dir][fn]
	if !ok {
		return true
	}
	for _, p := range snap.Params {
		if p == name {
			return true
		}
	}
	for _, l := range snap.Locals {
		if l[0] == name {
			return true
		}
	}
	return false
}
