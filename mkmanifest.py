#!/usr/bin/env python3
"""Regenerates /verif/MANIFEST.json from the table below (kept in one place so that
claims, levels and not_applicable reasons stay consistent)."""
import json, subprocess

TRUST = ("Trusted base: the go/ssa translation and the symbolic executor of /verif/engine; the SMT solvers; "
         "assumed contracts of the Go standard library and third-party dependencies (listed per run in the evidence "
         "trusted_base); meta-theorems M1-M8 of DESIGN.md 3.9 where concurrency is involved; input-domain "
         "preconditions stated in the contracts (bus created by New, non-nil context, callbacks other than handlers do not panic).")

CLAIMS = {
 "C04": ("Once claim/dispatch contracts of PublishContext (per-iteration), its goroutine literal, the atomic-field scan (executed only ever CAS 0->1) and the immutability scan, discharged for all inputs and iteration counts; all schedules through M5 (CAS linearizable).", "4 C04"),
 "C05": ("Panic containment contracts of callHandlerWithContext (never exits by panic, panic handler exactly once with the right arguments, Sequential mutex released on the panic path) and the dispatch loop of PublishContext, for every handler list and position.", "4 C05"),
 "C06": ("WaitGroup credit discipline (Add precedes go, exactly one Done per credit on every path), Wait/Shutdown contracts with a one-shot channel invariant; all workloads through M4.", "4 C06"),
 "C08": ("Hook-count, hook-order, context-threading and cancellation contracts of PublishContext/Publish/callHandlerWithContext for every handler list, hook combination and cancellation point (monotone context oracle).", "4 C08"),
 "C13": ("Failure-containment contracts of persistEvent (no panic, error handler exactly once with event/type/non-nil error, no retry, lastOffset only on success, timeout context descends and is cancelled).", "4 C13"),
}

NA = {
 "C14": "durability across SIGKILL/reopen is decided by the SQLite engine, WAL, VFS and the kernel; no pre/postcondition on ebu's Go functions expresses or decides it (DESIGN.md section 4, C14)",
}

PENDING = "contracts for this property are still being written; not claimed yet (work in progress, see DESIGN.md)"

props=[json.loads(l)['id'] for l in open('/verif/properties.jsonl')]
checks=[]
for p in props:
    if p in CLAIMS:
        text, ref = CLAIMS[p]
        checks.append({
          "property_id": p,
          "quick_cmd": f"./bin/ebuverify check -p {p} -tier quick",
          "thorough_cmd": f"./bin/ebuverify check -p {p} -tier thorough",
          "evidence_file": f"/verif/evidence/{p}.json",
          "replay_cmd_template": "cat {path}",
          "engine": "ebuverify",
          "level_claimed": {"category": "proof", "text": text, "design_ref": ref},
          "level_note": TRUST,
          "technique": "contract-based deductive verification: weakest-precondition-style symbolic execution of go/ssa with contracts in contracts_verif.go, obligations discharged by z3/cvc5",
        })
na=[{"property_id":p,"reason":NA.get(p,PENDING)} for p in props if p not in CLAIMS]
commits=subprocess.run(["git","-C","/repo","log","--format=%h %s","58b5c5c..HEAD"],capture_output=True,text=True).stdout.strip().split("\n")
hooks=[c.split()[0] for c in commits if c and "verif hooks" in c]
m={"version":1,
 "setup_cmd":"./setup.sh",
 "hooks":{"guard":"verif","enable":"-tags verif (comment-only contracts_verif.go files, read by the verifier; no executable hook code)",
  "baseline_off_cmd":"cd /repo && for m in . otel stores/sqlite stores/durablestream; do (cd $m && GOFLAGS=-mod=mod GOPROXY=off go test -vet=off -count=1 -timeout 25m ./...) || exit 1; done",
  "source_commits":hooks,"add_only":True},
 "engines":[{"name":"ebuverify","path":"engine/","serves_properties":sorted(CLAIMS),"kind_free_text":"contract-based deductive verifier for Go written for this task: symbolic execution over go/ssa (naive form) of /repo's working tree, contracts in contracts_verif.go (build tag verif), obligations discharged by z3 5.1 / z3 4.8 / cvc5"}],
 "checks":checks,
 "notes":"See DESIGN.md. known_findings.json lists genuine defects (fixed ones with their commit, recorded ones as known).",
 "not_applicable":na}
json.dump(m,open('/verif/MANIFEST.json','w'),indent=1)
print("claimed:",sorted(CLAIMS),"hooks:",hooks)
