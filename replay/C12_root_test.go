package eventbus

// Replay driver for C12 (injected with `go test -overlay`).

import (
	"context"
	"errors"
	"testing"
)

type verifC12Event struct{ N int }

type verifC12FailingLoad struct{ *MemoryStore }

func (s verifC12FailingLoad) LoadOffset(ctx context.Context, id string) (Offset, error) {
	return OffsetOldest, errors.New("verif: load failed")
}

type verifC12FailingAppend struct{ *MemoryStore }

func (s verifC12FailingAppend) Append(ctx context.Context, e *Event) (Offset, error) {
	return "", errors.New("verif: append failed")
}

func TestVerifReplayC12(t *testing.T) {
	ctx := context.Background()
	// history: two events, a subscription that handled both
	store := NewMemoryStore()
	bus := New(WithStore(store))
	Publish(bus, verifC12Event{1})
	Publish(bus, verifC12Event{2})
	var seen []int
	if err := SubscribeWithReplay(ctx, bus, "s", func(e verifC12Event) { seen = append(seen, e.N) }); err != nil {
		t.Fatal(err)
	}
	saved, _ := store.LoadOffset(ctx, "s")
	if len(seen) != 2 || saved == OffsetOldest {
		t.Fatalf("setup: seen=%v saved=%q", seen, saved)
	}
	// (a) a failing LoadOffset must not silently restart from the beginning
	busA := New(WithStore(store), WithSubscriptionStore(verifC12FailingLoad{store}))
	redelivered := 0
	err := SubscribeWithReplay(ctx, busA, "s", func(e verifC12Event) { redelivered++ })
	if err == nil || redelivered != 0 {
		t.Errorf("LoadOffset failed but SubscribeWithReplay returned %v and re-delivered %d events", err, redelivered)
	}
	// (b) restart on a store whose appends fail: the saved offset must not move backwards
	busB := New(WithStore(verifC12FailingAppend{store}), WithSubscriptionStore(store))
	if err := SubscribeWithReplay(ctx, busB, "s", func(e verifC12Event) {}); err != nil {
		t.Fatal(err)
	}
	Publish(busB, verifC12Event{3})
	after, _ := store.LoadOffset(ctx, "s")
	if after < saved {
		t.Errorf("saved offset moved backwards: %q -> %q", saved, after)
	}
}
