package main

// Engine: loading, unit verification, discharge.

import (
	"fmt"
	"go/types"
	"os"
	"path/filepath"
	"sort"
	"strings"
	"sync"

	"golang.org/x/tools/go/packages"
	"golang.org/x/tools/go/ssa"
	"golang.org/x/tools/go/ssa/ssautil"
)

type Engine struct {
	prog        *ssa.Program
	pkg         *ssa.Package
	ppkg        *packages.Package
	spec        *SpecDB
	typeConst   map[string]int
	typeConKind map[string]int
	anon        map[string]int
	closureIDs  map[string]*Closure
	iptrs       map[string]*Ptr
	addrTaken   []*atField
	noMerge     bool
	addrTakenKeys []string
	prov        map[string]guardTag
	initWriters map[string]bool
	epoch       int
	funcs       map[string]*ssa.Function
	outDir      string
	timeoutS    int
	allSolvers  bool
	dir         string
	mu          sync.Mutex
}

func (e *Engine) nextEpoch() int {
	e.epoch++
	return e.epoch
}

// LoadPackage type-checks dir (build tag verif) and builds naive-form SSA.
func LoadPackage(dir string, specFiles []string) (*Engine, error) {
	cfg := &packages.Config{Mode: packages.LoadAllSyntax, Dir: dir, BuildFlags: []string{"-tags=verif"},
		Env: append(os.Environ(), "GOFLAGS=-mod=mod", "GOPROXY=off", "GOTOOLCHAIN=auto")}
	pkgs, err := packages.Load(cfg, ".")
	if err != nil {
		return nil, err
	}
	if len(pkgs) != 1 {
		return nil, fmt.Errorf("expected one package in %s, got %d", dir, len(pkgs))
	}
	if len(pkgs[0].Errors) > 0 {
		return nil, fmt.Errorf("package %s has errors: %v", dir, pkgs[0].Errors)
	}
	prog, spkgs := ssautil.AllPackages(pkgs, ssa.NaiveForm|ssa.GlobalDebug)
	prog.Build()
	e := &Engine{prog: prog, pkg: spkgs[0], ppkg: pkgs[0], typeConst: map[string]int{}, typeConKind: map[string]int{}, anon: map[string]int{},
		closureIDs: map[string]*Closure{}, iptrs: map[string]*Ptr{}, prov: map[string]guardTag{}, initWriters: map[string]bool{},
		funcs: map[string]*ssa.Function{}, dir: dir, timeoutS: 10}
	curPkgPath = pkgs[0].PkgPath
	e.spec = NewSpecDB()
	for _, f := range specFiles {
		if err := e.spec.LoadFile(f); err != nil {
			return nil, err
		}
	}
	for fn := range ssautil.AllFunctions(prog) {
		if fn.Origin() != nil || fn.Synthetic != "" && !strings.Contains(fn.Synthetic, "range-over-func") {
			continue
		}
		root := fn
		for root.Parent() != nil {
			root = root.Parent()
		}
		if root.Pkg != e.pkg {
			continue
		}
		e.funcs[relName(fn)] = fn
	}
	// methods of (generic) named types that nothing in the package calls
	scope := e.pkg.Pkg.Scope()
	for _, nm := range scope.Names() {
		tn, ok := scope.Lookup(nm).(*types.TypeName)
		if !ok {
			continue
		}
		named, ok := tn.Type().(*types.Named)
		if !ok {
			continue
		}
		for i := 0; i < named.NumMethods(); i++ {
			if fn := prog.FuncValue(named.Method(i)); fn != nil {
				if _, have := e.funcs[relName(fn)]; !have {
					e.funcs[relName(fn)] = fn
					for _, anon := range fn.AnonFuncs {
						e.funcs[relName(anon)] = anon
					}
				}
			}
		}
	}
	e.computeAddrTaken()
	return e, nil
}

func (e *Engine) funcByName(pkg *ssa.Package, name string) *ssa.Function { return e.funcs[name] }

func (e *Engine) lookupType(pkg *ssa.Package, name string) types.Type {
	if pkg == nil {
		return nil
	}
	if tn, ok := pkg.Pkg.Scope().Lookup(name).(*types.TypeName); ok {
		return tn.Type()
	}
	return nil
}

func (e *Engine) lookupStruct(pkg *ssa.Package, name string) types.Type {
	t := e.lookupType(pkg, name)
	if t == nil {
		return nil
	}
	if _, ok := t.Underlying().(*types.Struct); ok {
		return t
	}
	return nil
}

func (e *Engine) importedPkg(pkg *ssa.Package, name string) *types.Package {
	for _, imp := range pkg.Pkg.Imports() {
		if imp.Name() == name {
			return imp
		}
	}
	// aliased imports: match by last path element
	for _, imp := range pkg.Pkg.Imports() {
		if filepath.Base(imp.Path()) == name {
			return imp
		}
	}
	// indirect dependencies (types that occur in signatures of imported packages)
	var cands []*types.Package
	for _, p := range e.prog.AllPackages() {
		if p.Pkg.Name() == name {
			cands = append(cands, p.Pkg)
		}
	}
	if len(cands) == 1 {
		return cands[0]
	}
	return nil
}

// --------------------------------------------------------------- units

type UnitResult struct {
	Func        string
	Obligs      []*Oblig
	Unsupported []string
	Assumed     []string
	Inlined     []string
	Paths       int
	Decls       string
	Axioms      []T
	Covers      []*Oblig
	DeadBlocks  []string
	DeadAfterCall []string
}

func (e *Engine) NewUnit(fn *ssa.Function, fs *FuncSpec) *Unit {
	u := &Unit{eng: e, pkg: e.pkg, fn: fn, fs: fs, decls: NewDecls(), loops: map[*ssa.BasicBlock]*Loop{}, heapSorts: map[string]Sort{},
		assumed: map[string]bool{}, autoInlined: map[string]bool{}, callOrd: map[string]int{}, pdoms: map[*ssa.Function]map[*ssa.BasicBlock]*ssa.BasicBlock{}, lastArgTypes: map[string][]types.Type{}, sliceArr: map[string]string{}, arrayOfCache: map[string]T{}, defOf: map[string]string{}, noMerge: os.Getenv("EBU_NOMERGE") != "" || e.noMerge}
	if fs != nil {
		u.props = fs.Props
		if fs.Pathwise {
			u.noMerge = true
		}
	}
	return u
}

// VerifyFunc generates all obligations of one function under contract.
func (e *Engine) VerifyFunc(name string) (*UnitResult, error) {
	fn := e.funcs[name]
	fs := e.spec.Funcs[name]
	if fn == nil {
		return nil, fmt.Errorf("function %s not found in package %s", name, e.pkg.Pkg.Path())
	}
	if fs == nil {
		return nil, fmt.Errorf("no contract block for %s", name)
	}
	e.prov = map[string]guardTag{}
	e.closureIDs = map[string]*Closure{}
	e.iptrs = map[string]*Ptr{}
	u := e.NewUnit(fn, fs)
	u.findLoops(fn)
	u.numberLoopsWithHelpers(fn)
	st := &State{cells: map[*Cell]Value{}, heaps: map[string]T{}, cnt: map[string]T{}, lastArgs: map[string][]Value{}, lastRes: map[string]Value{}, calleeGhosts: map[string]map[string]T{}, ctxDone: map[string]T{}, tokens: map[string]int{}, marks: map[string]*Snapshot{}}
	st.epoch = e.nextEpoch()
	u.entryEpoch = st.epoch
	// ghost axioms from the spec files
	u.declareSpecPrelude()
	// parameters
	var args []Value
	names := map[string]SV{}
	for _, p := range fn.Params {
		v := u.freshOfType(st, "p."+p.Name(), p.Type())
		if isRefType(p.Type()) {
			u.assumeAllocated(st, v)
		}
		args = append(args, v)
		names[p.Name()] = SV{V: v, Typ: p.Type()}
	}
	for oldN, newN := range u.aliasesOf(fn) {
		if sv, ok := names[newN]; ok {
			if _, taken := names[oldN]; !taken {
				names[oldN] = sv
				u.note("contract identifier " + oldN + " rebound to renamed parameter " + newN + " of " + name)
			}
		}
	}
	var binds []Value
	for _, fv := range fn.FreeVars {
		et := fv.Type().(*types.Pointer).Elem()
		c := u.newCell(st, fv.Name(), et)
		v := u.freshOfType(st, "fv."+fv.Name(), et)
		if isRefType(et) {
			u.assumeAllocated(st, v)
		}
		st.cells[c] = v
		binds = append(binds, &Ptr{kind: pCell, cell: c, rtyp: et, typ: et})
		names[fv.Name()] = SV{V: v, Typ: et}
		names["&"+fv.Name()] = SV{V: &Ptr{kind: pCell, cell: c, rtyp: et, typ: et}, Typ: fv.Type()}
	}
	// a pseudo frame so that requires can mention free variables by name
	st.frame = &Frame{fn: fn, regs: map[ssa.Value]Value{}, named: map[string]*Cell{}}
	for i, fv := range fn.FreeVars {
		st.frame.named[fv.Name()] = binds[i].(*Ptr).cell
	}
	st.entry = st.snapshot()
	u.entryParams = names
	env := u.newEnv(st)
	env.names = names
	// exclusive(p) clauses first: they decide how *p is read by the others
	reqs := make([]*Clause, 0, len(fs.Requires))
	for _, c := range fs.Requires {
		if _, ok := u.exclusiveExpr(env, c); ok {
			reqs = append(reqs, c)
		}
	}
	for _, c := range fs.Requires {
		if _, ok := u.exclusiveExpr(env, c); !ok {
			reqs = append(reqs, c)
		}
	}
	for _, c := range reqs {
		if g, ok := c.Expr.(*SEGo); ok {
			if key, n, ok := u.tokenExpr(env, g); ok {
				st.tokens[key] += n
				continue
			}
		}
		if sv, ok := u.exclusiveExpr(env, c); ok {
			if pt, isP := sv.Typ.Underlying().(*types.Pointer); isP {
				ref := u.lower(st, sv.V, sv.Typ)
				kind := "deref:" + string(u.sortOf(pt.Elem()))
				if _, isStruct := pt.Elem().Underlying().(*types.Struct); isStruct && !isOpaqueStruct(pt.Elem()) {
					kind = "obj:" + structName(pt.Elem())
				}
				st.assume(Neq(ref, IntLit(0)))
				for _, p := range st.private {
					st.assume(Neq(ref, p.ref))
				}
				st.private = append(st.private, privRef{ref, kind, ""})
				// make sure the heap exists so that frames apply to it
				if strings.HasPrefix(kind, "deref:") {
					hn, hs := derefHeapName(u.sortOf(pt.Elem()))
					u.heapGet(st.view(), hn, hs)
				}
			}
			continue
		}
		if name, base, mode, ok := u.lockedExpr(env, c); ok {
			// the caller holds the lock: its invariant holds and is the
			// acquisition state for acq()
			st.locks = append(st.locks, LockHeld{key: name + "@" + base.S, mode: mode, name: name, level: u.lockLevel(name), base: base})
			for _, li := range e.spec.LockInvs {
				if li.Struct+"."+li.Mu == name {
					lenv := u.newEnv(st)
					lenv.names = map[string]SV{li.This: {V: base, Typ: types.NewPointer(e.lookupStruct(u.pkg, li.Struct))}}
					st.assume(u.evalBool(lenv, li.C.Expr))
				}
			}
			st.acq = st.snapshot()
			u.entryLocks++
			continue
		}
		st.assume(u.evalBool(env, c.Expr))
	}
	st.entry = st.snapshot()
	for _, c := range fs.Decreases {
		u.entryVariant = append(u.entryVariant, u.evalTerm(env, c.Expr))
	}
	st.frame = nil
	st0 := st.clone()
	nreq := len(st.pc)
	_ = nreq

	u.checkChanInvClosers(st.clone())
	outs := u.execFunc(st, fn, args, binds)
	u.feas.close()
	for _, o := range outs {
		u.checkExit(o, fs, names)
	}
	// every `at MARK assert` clause must have been reached at least once: a mark
	// that matches no call or unlock of the function checks nothing
	for _, c := range fs.Asserts {
		if !u.atHit[c] {
			u.unsupportedf("contract clause `at %s assert [%s]` matches no program point of %s (mark misspelt, or the code it refers to is gone)", c.Mark, c.Label, name)
		}
	}
	for _, spc := range u.eng.spec.Funcs {
		// clauses of contracted literals inlined into this function are checked with their own unit
		_ = spc
		break
	}
	// vacuity guard: every basic block of the function (and of the literals it defines) that is
	// not a recover block must have been entered by some path; a block no path reaches is dead
	// code under the assumed contracts - typically a contradictory assumption on one branch
	if len(u.unsupported) == 0 {
		var walk func(f *ssa.Function)
		walk = func(f *ssa.Function) {
			for _, b := range f.Blocks {
				if b == f.Recover || u.reached[b] || (len(b.Preds) == 0 && b.Index != 0) {
					continue
				}
				if f != fn && !u.reached[f.Blocks[0]] {
					continue // a literal this function never runs itself
				}
				pos := ""
				for _, in := range b.Instrs {
					if in.Pos().IsValid() {
						pos = u.eng.prog.Fset.Position(in.Pos()).String()
						break
					}
				}
				u.deadBlocks = append(u.deadBlocks, fmt.Sprintf("%s:%d (%s)", f.Name(), b.Index, pos))
			}
			for _, af := range f.AnonFuncs {
				walk(af)
			}
		}
		walk(fn)
		seenT := map[*ssa.BasicBlock]bool{}
		for _, pb := range u.pruned {
			if u.reached[pb.target] || seenT[pb.target] || !mentionsCallResult(pb.cond, map[string]bool{}) {
				continue
			}
			seenT[pb.target] = true
			pos := ""
			if pb.at != nil && pb.at.Pos().IsValid() {
				pos = u.eng.prog.Fset.Position(pb.at.Pos()).String()
			}
			for _, in := range pb.target.Instrs {
				if pos == "" && in.Pos().IsValid() {
					pos = u.eng.prog.Fset.Position(in.Pos()).String()
				}
			}
			u.deadAfterCall = append(u.deadAfterCall, fmt.Sprintf("%s block %d (%s)", pb.target.Parent().Name(), pb.target.Index, pos))
		}
	}
	// vacuity cover: the preconditions are satisfiable (must NOT be unsat)
	cover := &Oblig{Name: relName(fn) + "#cover.requires", Func: relName(fn), Kind: "cover", Assume: append([]T(nil), st.pcAtEntry(nreq)...), Goal: False, Text: "vacuity guard: the function's preconditions are satisfiable"}
	u.covers = append(u.covers, cover)

	var assumed []string
	for k := range u.assumed {
		assumed = append(assumed, k)
	}
	sort.Strings(assumed)
	axioms := u.axiomTerms(st0)
	return &UnitResult{Inlined: sortedKeys(u.autoInlined), Covers: u.covers, Axioms: axioms, Func: name, Obligs: u.obligs, Unsupported: u.unsupported, Assumed: assumed, Paths: u.npaths, Decls: u.decls.Text(), DeadBlocks: u.deadBlocks, DeadAfterCall: u.deadAfterCall}, nil
}

func (s *State) pcAtEntry(n int) []T {
	if n > len(s.pc) {
		n = len(s.pc)
	}
	return s.pc[:n]
}

func (u *Unit) declareSpecPrelude() {
	u.declCtx()
	if _, ok := u.eng.spec.Ghosts["dec"]; ok {
		u.declDec()
	}
	db := u.eng.spec
	for _, n := range sortedKeys(db.Ghosts) {
		g := db.Ghosts[n]
		var as []string
		for _, s := range g.Args {
			as = append(as, string(s))
		}
		u.decls.Add("ghost:"+n, fmt.Sprintf("(declare-fun %s (%s) %s)", n, strings.Join(as, " "), g.Ret))
	}
}

// axiomTerms: the prelude axioms relevant to this unit.  An axiom is included
// when it mentions a ghost function that occurs in some obligation or cover of
// the unit (or in an axiom already included): axioms about symbols the unit never
// uses cannot help a proof and only add quantifier noise.
func (u *Unit) axiomTerms(st *State) []T {
	db := u.eng.spec
	used := map[string]bool{}
	occurs := func(name string) bool {
		pat := "(" + name + " "
		for _, o := range u.obligs {
			if strings.Contains(o.Goal.S, pat) {
				return true
			}
			for _, a := range o.Assume {
				if strings.Contains(a.S, pat) {
					return true
				}
			}
		}
		for _, o := range u.covers {
			for _, a := range o.Assume {
				if strings.Contains(a.S, pat) {
					return true
				}
			}
		}
		if strings.Contains(u.decls.Text(), pat) {
			// definitional assertions kept with the declarations (array comprehensions, ...)
			return true
		}
		return false
	}
	names := sortedKeys(db.Ghosts)
	for gh := range db.GhostHeaps {
		names = append(names, gh)
	}
	for _, n := range names {
		if _, isHeap := db.GhostHeaps[n]; isHeap {
			for _, o := range u.obligs {
				if strings.Contains(o.Goal.S, "G!"+n) {
					used[n] = true
				}
				for _, a := range o.Assume {
					if strings.Contains(a.S, "G!"+n) {
						used[n] = true
					}
				}
			}
			continue
		}
		if occurs(n) {
			used[n] = true
		}
	}
	mentions := func(text, name string) bool {
		i := 0
		for {
			j := strings.Index(text[i:], name)
			if j < 0 {
				return false
			}
			j += i
			before := j == 0 || !isIdentChar(text[j-1])
			after := j+len(name) >= len(text) || !isIdentChar(text[j+len(name)])
			if before && after {
				return true
			}
			i = j + len(name)
		}
	}
	include := make([]bool, len(db.Axioms))
	for changed := true; changed; {
		changed = false
		for i, a := range db.Axioms {
			if include[i] {
				continue
			}
			hit, any := false, false
			for _, n := range names {
				if mentions(a.Text, n) {
					any = true
					if used[n] {
						hit = true
					}
				}
			}
			if hit || !any {
				include[i] = true
				changed = true
				for _, n := range names {
					if mentions(a.Text, n) {
						used[n] = true
					}
				}
			}
		}
	}
	var out []T
	for i, a := range db.Axioms {
		if !include[i] {
			continue
		}
		env := u.newEnv(st)
		out = append(out, u.evalBool(env, a.Expr))
	}
	return out
}

func isIdentChar(c byte) bool {
	return c == '_' || c >= '0' && c <= '9' || c >= 'a' && c <= 'z' || c >= 'A' && c <= 'Z'
}

func (u *Unit) checkExit(o Outcome, fs *FuncSpec, params map[string]SV) {
	st := o.st
	fn := u.fn
	// pseudo frame for named lookups at exit (results only via names)
	if st.frame == nil {
		st.frame = &Frame{fn: fn, regs: map[ssa.Value]Value{}, named: map[string]*Cell{}}
		if st.lastFrame != nil {
			st.frame = st.lastFrame
		}
	}
	env := u.newEnv(st)
	env.names = map[string]SV{}
	for k, v := range params {
		env.names[k] = v
	}
	var exitInstr ssa.Instruction
	if o.panicked {
		goal := False
		if fs.MayPanic {
			goal = True
		}
		u.addOblig(st, "nopanic.exit", "", nil, goal, exitInstr, "the function never exits by panic (callbacks that may panic are recovered)")
		for _, c := range fs.OnPanic {
			u.addOblig(st, "onpanic."+labelOr(c, "onpanic"), c.Text, clauseProps(c, fs), u.evalBool(env, c.Expr), exitInstr, "on panicking exit: "+c.Text)
		}
	} else {
		u.addCover(st, "exit", "exit", "a normal return of the function is reachable")
		// `at exit ...` clauses (ghost updates a constructor needs before its result is checked)
		for _, c := range fs.Asserts {
			if c.Mark != "exit" {
				continue
			}
			if u.atHit == nil {
				u.atHit = map[*Clause]bool{}
			}
			u.atHit[c] = true
			// results by name for the clause
			xenv := u.newEnv(st)
			xenv.names = map[string]SV{}
			for k, v := range params {
				xenv.names[k] = v
			}
			rs := fn.Signature.Results()
			for i := 0; i < rs.Len() && i < len(o.results); i++ {
				sv := SV{V: o.results[i], Typ: rs.At(i).Type()}
				if rs.Len() == 1 {
					xenv.names["result"] = sv
				}
				xenv.names[fmt.Sprintf("result%d", i)] = sv
			}
			if c.GhostTarget != "" {
				u.ghostNewEnv(st, c, xenv)
				continue
			}
			g := u.evalBool(xenv, c.Expr)
			u.addOblig(st, "at."+labelOr(c, "assert"), c.Text, c.Props, g, exitInstr, "at exit: "+c.Text)
			if !c.NoAssume {
				st.assume(g)
			}
		}
		u.checkCreatedInvariants(st, "created", exitInstr, 0)
		rs := fn.Signature.Results()
		for i := 0; i < rs.Len() && i < len(o.results); i++ {
			sv := SV{V: o.results[i], Typ: rs.At(i).Type()}
			if rs.Len() == 1 {
				env.names["result"] = sv
			}
			env.names[fmt.Sprintf("result%d", i)] = sv
			if n := rs.At(i).Name(); n != "" && n != "_" {
				env.names[n] = sv
			}
			if types.Identical(rs.At(i).Type(), types.Universe.Lookup("error").Type()) {
				if _, taken := env.names["err"]; !taken {
					env.names["err"] = sv
				}
			}
		}
		for _, c := range fs.Ensures {
			if sv, ok := u.ownedExpr(env, c); ok {
				// the returned slice is nil or backed by an array this activation created and never shared
				goal := False
				if u.isPrivateSliceTerm(st, u.lower(st, sv.V, sv.Typ), 0) {
					goal = True
				}
				u.addOblig(st, "post."+labelOr(c, "owned"), c.Text, clauseProps(c, fs), goal, exitInstr, "postcondition: "+c.Text+" (the returned slice is nil or backed by an array private to this activation)")
				continue
			}
			u.addOblig(st, "post."+labelOr(c, "ensures"), c.Text, clauseProps(c, fs), u.evalBool(env, c.Expr), exitInstr, "postcondition: "+c.Text)
		}
	}
	goal := True
	why := ""
	for i, h := range st.locks {
		if i < u.entryLocks {
			continue // held by the caller on entry (requires locked(...))
		}
		goal = False
		why += " " + h.name
	}
	if len(st.locks) < u.entryLocks {
		goal = False
		why += " (a lock held by the caller was released)"
	}
	u.addOblig(st, "lockset.exit", "", u.propsFor("C03"), goal, exitInstr, "every lock acquired is released on this exit path (still held:"+why+")")
	tg := True
	tw := ""
	for k, v := range st.tokens {
		if v != 0 {
			tg = False
			tw += fmt.Sprintf(" %s=%d", k, v)
		}
	}
	if len(st.tokens) > 0 {
		u.addOblig(st, "tokens.exit", "", u.propsFor("C06"), tg, exitInstr, "no WaitGroup credit is left over or missing at exit:"+tw)
	}
}

// ------------------------------------------------------------ discharge

func (e *Engine) preludeText(u *UnitResult, axioms []T) string {
	var b strings.Builder
	b.WriteString(preludeSMT)
	b.WriteString(u.Decls)
	b.WriteByte('\n')
	for _, a := range axioms {
		fmt.Fprintf(&b, "(assert %s)\n", a.S)
	}
	return b.String()
}

// DischargeAll runs the solver portfolio on every obligation (in parallel).
func (e *Engine) DischargeAll(res *UnitResult, axioms []T, workers int) {
	decls := e.preludeText(res, axioms)
	dir := filepath.Join(e.outDir, sanitize(res.Func))
	os.MkdirAll(dir, 0o755)
	var wg sync.WaitGroup
	sem := make(chan struct{}, workers)
	for i, o := range res.Obligs {
		o.Path = i
		if o.Goal.S == "true" {
			o.Res = SolverResult{Verdict: "unsat", Solver: "trivial"}
			continue
		}
		wg.Add(1)
		sem <- struct{}{}
		go func(i int, o *Oblig) {
			defer wg.Done()
			defer func() { <-sem }()
			parts := splitGoal(o.Goal)
			if len(parts) == 1 {
				o.Res = Discharge(dir, fmt.Sprintf("%s@%d", o.Name, i), decls, o.Assume, o.Goal, e.timeoutS, e.allSolvers)
				return
			}
			// every conjunct separately: all must be discharged
			agg := SolverResult{Verdict: "unsat", All: map[string]string{}}
			for k, g := range parts {
				r := Discharge(dir, fmt.Sprintf("%s@%d.%d", o.Name, i, k), decls, o.Assume, g, e.timeoutS, e.allSolvers)
				agg.Seconds += r.Seconds
				if agg.Solver == "" {
					agg.Solver = r.Solver
				}
				for n, v := range r.All {
					agg.All[n] = v
				}
				if r.Verdict != "unsat" {
					agg.Verdict = r.Verdict
					agg.Solver = r.Solver
					agg.Output = fmt.Sprintf("conjunct %d of %d: %s\n%s", k+1, len(parts), g.S, r.Output)
					agg.Relaxed = r.Relaxed
					agg.FailedPart = k
					break
				}
			}
			o.Res = agg
		}(i, o)
	}
	wg.Wait()
}

// splitGoal splits a goal into conjuncts: (and a b) and (=> p (and a b)).
func splitGoal(g T) []T {
	if as := ctorArgs(g.S, "and"); len(as) > 1 {
		var out []T
		for _, a := range as {
			out = append(out, splitGoal(T{a, SBool})...)
		}
		return out
	}
	if as := ctorArgs(g.S, "=>"); len(as) == 2 {
		sub := splitGoal(T{as[1], SBool})
		if len(sub) > 1 {
			var out []T
			for _, x := range sub {
				out = append(out, T{"(=> " + as[0] + " " + x.S + ")", SBool})
			}
			return out
		}
	}
	return []T{g}
}


// aliasesOf: rename aliases (old name -> new name) of a function of the package under verification.
func (u *Unit) aliasesOf(fn *ssa.Function) map[string]string {
	if fn == nil {
		return nil
	}
	if u.aliasCache == nil {
		u.aliasCache = map[*ssa.Function]map[string]string{}
	}
	if a, ok := u.aliasCache[fn]; ok {
		return a
	}
	a := renameAliases(u.eng.dirRel(), relName(fn), fn)
	u.aliasCache[fn] = a
	return a
}

func (e *Engine) dirRel() string {
	if r, err := filepath.Rel(repoRoot, e.dir); err == nil {
		return r
	}
	return e.dir
}


// numberLoopsWithHelpers numbers the loops of fn together with the loops of the helpers fn calls
// directly that have no contract of their own (they are verified inlined): a helper's loops take
// their place at the position of the call, as if the helper's body stood there.  A loop that is
// extracted into such a helper therefore keeps its number, and the `loop K` clauses of fn's contract
// keep applying to it (evaluated in the helper's frame).
func (u *Unit) numberLoopsWithHelpers(fn *ssa.Function) {
	type item struct {
		pos, sub int
		h        *ssa.BasicBlock
	}
	var items []item
	for h, lp := range u.loops {
		if lp.fn == fn {
			items = append(items, item{blockPos(h), 0, h})
		}
	}
	helperLoops := false
	seen := map[*ssa.Function]bool{}
	for _, b := range fn.Blocks {
		for _, in := range b.Instrs {
			call, ok := in.(*ssa.Call)
			if !ok {
				continue
			}
			callee := call.Call.StaticCallee()
			if callee == nil || call.Call.IsInvoke() {
				continue
			}
			target := callee
			if o := callee.Origin(); o != nil {
				target = o
			}
			if target == fn || seen[target] || target.Pkg != u.pkg || len(target.Blocks) == 0 || target.Parent() != nil {
				continue
			}
			if u.eng.spec.Funcs[relName(callee)] != nil || u.eng.spec.Funcs[relName(target)] != nil {
				continue
			}
			seen[target] = true
			u.findLoops(target)
			var hs []*ssa.BasicBlock
			for h, lp := range u.loops {
				if lp.fn == target {
					hs = append(hs, h)
				}
			}
			sort.Slice(hs, func(i, j int) bool { return u.loops[hs[i]].index < u.loops[hs[j]].index })
			for k, h := range hs {
				helperLoops = true
				items = append(items, item{int(call.Pos()), k + 1, h})
				u.loops[h].inherited = true
			}
		}
	}
	if !helperLoops {
		return
	}
	sort.Slice(items, func(i, j int) bool {
		if items[i].pos != items[j].pos {
			return items[i].pos < items[j].pos
		}
		return items[i].sub < items[j].sub
	})
	for i, it := range items {
		u.loops[it.h].index = i + 1
	}
}
