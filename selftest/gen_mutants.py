#!/usr/bin/env python3
"""Regenerates the must-fail corpus /verif/selftest/mutants/*.patch from the edits
below (each: file, old text, new text, properties, obligations expected to fail).
Every mutant compiles and keeps the pinned test suite green (checked when the
mutant was added); the selftest demands that the named obligations fail."""
import os, subprocess, tempfile, shutil, sys

REPO = os.environ.get("EBU_REPO", "/repo")
OUT = os.path.join(os.path.dirname(os.path.abspath(__file__)), "mutants")

M = []
def mut(name, props, expects, edits):
    M.append((name, props, expects, edits))

# ---------------------------------------------------------------- C13
mut("c13_lastoffset_on_error", "C13", ["(*EventBus).persistEvent#cs.C13.offset.cs"],
    [("persist.go", "\tif saveErr == nil {\n\t\tbus.lastOffset = offset\n\t}\n\tbus.storeMu.Unlock()", "\tbus.lastOffset = offset\n\tbus.storeMu.Unlock()")])
mut("c13_handler_twice", "C13", ["(*EventBus).persistEvent#post.C13.append.fail"],
    [("persist.go", "\tbus.storeMu.Unlock()\n\n\t// Observability: Track persistence complete",
      "\tbus.storeMu.Unlock()\n\tif saveErr != nil && bus.persistenceErrorHandler != nil {\n\t\tbus.persistenceErrorHandler(event, eventType, saveErr)\n\t}\n\n\t// Observability: Track persistence complete")])
mut("c13_retry", "C13", ["(*EventBus).persistEvent#post.C13.append.once"],
    [("persist.go", "\toffset, saveErr := bus.store.Append(ctx, toStore)\n", "\toffset, saveErr := bus.store.Append(ctx, toStore)\n\tif saveErr != nil {\n\t\toffset, saveErr = bus.store.Append(ctx, toStore)\n\t}\n")])
# ---------------------------------------------------------------- C04
mut("c04_claim_before_filter", "C04", ["PublishContext#loop1.iter.C04.filterFirst"],
    [("event_bus.go", "\t\t// Check filter if present\n\t\tif h.filter != nil {", "\t\tif h.once && !atomic.CompareAndSwapUint32(&h.executed, 0, 1) {\n\t\t\tcontinue\n\t\t}\n\t\t// Check filter if present\n\t\tif h.filter != nil {"),
     ("event_bus.go", "\t\t\tif !atomic.CompareAndSwapUint32(&h.executed, 0, 1) {\n\t\t\t\tcontinue // Already executed\n\t\t\t}\n", "")])
mut("c04_load_store", "C04", ["package#atomic.internalHandler.executed"],
    [("event_bus.go", "\t\t\tif !atomic.CompareAndSwapUint32(&h.executed, 0, 1) {\n\t\t\t\tcontinue // Already executed\n\t\t\t}", "\t\t\tif atomic.LoadUint32(&h.executed) != 0 {\n\t\t\t\tcontinue // Already executed\n\t\t\t}\n\t\t\tatomic.StoreUint32(&h.executed, 1)")])
mut("c04_not_retired", "C04", ["PublishContext#loop1.iter.C04.retire"],
    [("event_bus.go", "\t\t\t// Mark for removal after execution\n\t\t\tonceHandlersToRemove = append(onceHandlersToRemove, h)\n", "\t\t\tif !h.async {\n\t\t\t\tonceHandlersToRemove = append(onceHandlersToRemove, h)\n\t\t\t}\n")])
mut("c04_claim_before_ctx", "C04", ["PublishContext#loop1.iter.C04.claimRuns"],
    [("event_bus.go", "\t\tselect {\n\t\tcase <-ctx.Done():\n\t\t\tcontinue // Skip if context cancelled\n\t\tdefault:\n\t\t}\n\n\t\t// For once handlers", "\t\t// For once handlers"),
     ("event_bus.go", "\t\t} else {\n\t\t\tcallHandlerWithContext(h, ctx, event, bus.panicHandler, bus.observability, eventTypeName, false)\n\t\t}",
      "\t\t} else {\n\t\t\tselect {\n\t\t\tcase <-ctx.Done():\n\t\t\t\tcontinue\n\t\t\tdefault:\n\t\t\t\tcallHandlerWithContext(h, ctx, event, bus.panicHandler, bus.observability, eventTypeName, false)\n\t\t\t}\n\t\t}")])
# ---------------------------------------------------------------- C05
mut("c05_unlock_not_deferred", "C05", ["callHandlerWithContext#lockset.exit"],
    [("event_bus.go", "\tif h.sequential {\n\t\th.mu.Lock()\n\t\tdefer h.mu.Unlock()\n\t}\n", "\tif h.sequential {\n\t\th.mu.Lock()\n\t}\n"),
     ("event_bus.go", "\tcase Handler[T]:\n\t\tfn(event)\n\tcase ContextHandler[T]:\n\t\tfn(ctx, event)", "\tcase Handler[T]:\n\t\tfn(event)\n\t\tif h.sequential {\n\t\t\th.mu.Unlock()\n\t\t}\n\tcase ContextHandler[T]:\n\t\tfn(ctx, event)\n\t\tif h.sequential {\n\t\t\th.mu.Unlock()\n\t\t}")])
mut("c05_panic_handler_twice", "C05", ["callHandlerWithContext#post.C05.panic.handlerOnce"],
    [("event_bus.go", "\t\t\tif panicHandler != nil {\n\t\t\t\tpanicHandler(event, h.handlerType, r)\n\t\t\t}", "\t\t\tif panicHandler != nil {\n\t\t\t\tpanicHandler(event, h.handlerType, r)\n\t\t\t\tif async {\n\t\t\t\t\tpanicHandler(event, h.handlerType, r)\n\t\t\t\t}\n\t\t\t}")])
# ---------------------------------------------------------------- C06
mut("c06_add_in_goroutine", "C06", ["PublishContext#go.PublishContext$1#1.token.token"],
    [("event_bus.go", "\t\t\twg.Add(1)\n\t\t\tbus.wg.Add(1)\n\t\t\tgo func(handler *internalHandler) {\n\t\t\t\tdefer wg.Done()", "\t\t\twg.Add(1)\n\t\t\tgo func(handler *internalHandler) {\n\t\t\t\tbus.wg.Add(1)\n\t\t\t\tdefer wg.Done()")])
mut("c06_close_before_wait", "C06", ["(*EventBus).Shutdown$1#at.C06.close.afterWait"],
    [("event_bus.go", "\t\tbus.Wait()\n\t\tclose(done)", "\t\tclose(done)\n\t\tbus.Wait()")])
mut("c06_close_store_on_ctx", "C06", ["(*EventBus).Shutdown#at.C06.shutdown.closeAfterWait"],
    [("event_bus.go", "\tcase <-ctx.Done():\n\t\treturn ctx.Err()\n\t}\n}", "\tcase <-ctx.Done():\n\t\tif closer, ok := bus.store.(interface{ Close() error }); ok {\n\t\t\tcloser.Close()\n\t\t}\n\t\treturn ctx.Err()\n\t}\n}")])
# ---------------------------------------------------------------- C08
mut("c08_after_hooks_only_with_handlers", "C08", ["PublishContext#post.C08.hooks.once"],
    [("event_bus.go", "\tif bus.afterPublish != nil {\n\t\tbus.afterPublish(eventType, event)\n\t}", "\tif bus.afterPublish != nil && len(handlersCopy) > 0 {\n\t\tbus.afterPublish(eventType, event)\n\t}")])
mut("c08_before_hook_after_snapshot", "C08", ["PublishContext#at.C08.before.first"],
    [("event_bus.go", "\tif bus.beforePublish != nil {\n\t\tbus.beforePublish(eventType, event)\n\t}\n", ""),
     ("event_bus.go", "\t// Remove once handlers that were executed", "\tif bus.beforePublish != nil {\n\t\tbus.beforePublish(eventType, event)\n\t}\n\t// Remove once handlers that were executed")])
mut("c08_background_ctx", "C08", ["callHandlerWithContext#post.C08.ctx.passed"],
    [("event_bus.go", "\tcase ContextHandler[T]:\n\t\tfn(ctx, event)", "\tcase ContextHandler[T]:\n\t\tfn(context.Background(), event)")])
# ---------------------------------------------------------------- C09
mut("c09_persist_in_goroutine", "C09", ["WithStore$1$1#post.C09.persistsOnce"],
    [("persist.go", "\t\t\t// Then persist the event\n\t\t\tbus.persistEvent(ctx, eventType, event)", "\t\t\t// Then persist the event\n\t\t\tgo bus.persistEvent(ctx, eventType, event)")])
mut("c09_reflect_name", "C09 C15", ["(*EventBus).persistEvent#post.C09.record"],
    [("persist.go", "\ttypeName := EventType(event)\n\n\ttoStore", "\ttypeName := reflect.TypeOf(event).String()\n\n\ttoStore")])
mut("c09_option_drops_persistence", "C09", ["WithBeforePublishContext$1#post.C09.option.preserves"],
    [("event_bus.go", "\t\tif bus.store != nil {\n\t\t\t// A store is already configured", "\t\tif bus.store != nil && hook == nil {\n\t\t\t// A store is already configured")])
# ---------------------------------------------------------------- C01 / C02
mut("c01_subscribe_prepend", "C01", ["Subscribe#cs.cs.append"],
    [("event_bus.go", "\tshard.handlers[eventType] = append(shard.handlers[eventType], h)\n\tshard.mu.Unlock()\n\n\treturn nil\n}\n\n// SubscribeContext", "\tshard.handlers[eventType] = append([]*internalHandler{h}, shard.handlers[eventType]...)\n\tshard.mu.Unlock()\n\n\treturn nil\n}\n\n// SubscribeContext")])
mut("c01_handlercount_off", "C01", ["HandlerCount#post.cs.result"],
    [("event_bus.go", "\treturn len(shard.handlers[eventType])\n}", "\tn := len(shard.handlers[eventType])\n\tif n > 3 {\n\t\treturn n - 1\n\t}\n\treturn n\n}")])
mut("c01_iterate_live_slice", "C01 C03", ["PublishContext#guard.derived.read.shard.mu"],
    [("event_bus.go", "\tfor _, h := range handlersCopy {\n\t\t// Check filter if present", "\tfor _, h := range handlers {\n\t\t// Check filter if present")])
mut("c01_unsubscribe_last_match", "C01", ["Unsubscribe#cs.cs.removeFirst"],
    [("event_bus.go", "\tfor i, h := range handlers {\n\t\tif reflect.ValueOf(h.handler).Pointer() == handlerPtr {\n\t\t\t// Remove handler efficiently\n\t\t\tshard.handlers[eventType] = append(handlers[:i], handlers[i+1:]...)\n\t\t\treturn nil\n\t\t}\n\t}",
      "\tfor i := len(handlers) - 1; i >= 0; i-- {\n\t\tif reflect.ValueOf(handlers[i].handler).Pointer() == handlerPtr {\n\t\t\tshard.handlers[eventType] = append(handlers[:i], handlers[i+1:]...)\n\t\t\treturn nil\n\t\t}\n\t}")])
mut("c02_clear_rlock", "C02 C03", ["Clear#guard.mapwrite.shard.mu"],
    [("event_bus.go", "\tshard.mu.Lock()\n\tdelete(shard.handlers, eventType)\n\tshard.mu.Unlock()", "\tshard.mu.RLock()\n\tdelete(shard.handlers, eventType)\n\tshard.mu.RUnlock()")])
mut("c01_filter_break", "C01", ["PublishContext#at.C08.after.last"],
    [("event_bus.go", "\t\t\t\tif !filterFunc(event) {\n\t\t\t\t\tcontinue // Skip this handler as event doesn't match filter\n\t\t\t\t}", "\t\t\t\tif !filterFunc(event) {\n\t\t\t\t\tbreak\n\t\t\t\t}")])
# ---------------------------------------------------------------- C10 / C11
mut("c10_read_ge", "C10", ["(*MemoryStore).Read#loop1.inv.block.preserve"],
    [("persist.go", "\t\tif from == OffsetOldest || event.Offset > from {\n\t\t\tresult = append(result, event)", "\t\tif from == OffsetOldest || event.Offset >= from {\n\t\t\tresult = append(result, event)")])
mut("c10_read_next_stale", "C10", ["(*MemoryStore).Read#cs.C10.read.r5a"],
    [("persist.go", "\t\t\tlastOffset = event.Offset\n\t\t\tif limit > 0 && len(result) >= limit {\n\t\t\t\tbreak\n\t\t\t}", "\t\t\tif limit > 0 && len(result) >= limit {\n\t\t\t\tbreak\n\t\t\t}\n\t\t\tlastOffset = event.Offset")])
mut("c10_append_unpadded", "C10", ["(*MemoryStore).Append#cs.C10.append.log"],
    [("persist.go", "offset := Offset(fmt.Sprintf(\"%020d\", m.nextOffset))", "offset := Offset(fmt.Sprintf(\"%d\", m.nextOffset))")])
mut("c11_ignore_stream_error", "C11", ["(*EventBus).Replay#post.C11.stream.nil"],
    [("persist.go", "\t\t\tif err != nil {\n\t\t\t\treturn fmt.Errorf(\"stream events: %w\", err)\n\t\t\t}", "\t\t\tif err != nil {\n\t\t\t\tbreak\n\t\t\t}")])
mut("c11_continue_on_callback_error", "C11", ["(*EventBus).Replay#loop1.inv.C11.paged.loop.preserve"],
    [("persist.go", "\t\tfor _, event := range events {\n\t\t\tif err := handler(event); err != nil {\n\t\t\t\treturn fmt.Errorf(\"handle event at offset %s: %w\", event.Offset, err)\n\t\t\t}\n\t\t}", "\t\tfor _, event := range events {\n\t\t\tif err := handler(event); err != nil {\n\t\t\t\tbreak\n\t\t\t}\n\t\t}")])
mut("c11_short_page_is_end", "C11", ["(*EventBus).Replay#post.C11.paged.nil"],
    [("persist.go", "\t\t// Protect against infinite loop if offset doesn't advance", "\t\tif len(events) < batchSize-1 {\n\t\t\tbreak\n\t\t}\n\t\t// Protect against infinite loop if offset doesn't advance")])
mut("c10_stream_yield_under_lock", "C10 C03", ["(*MemoryStore).ReadStream$1#call.func(*StoredEvent, error) bool#2.unlocked"],
    [("persist.go", "\t\t\tevents = append(events, event)\n\t\t\t}\n\t\t}\n\t\tm.mu.RUnlock()\n", "\t\t\tevents = append(events, event)\n\t\t\t}\n\t\t}\n\t\tdefer m.mu.RUnlock()\n")])
# ---------------------------------------------------------------- C12 / C15 / C16 / C17
mut("c12_save_before_handle", "C12", ["SubscribeWithReplay$1#at.C12.replay.order"],
    [("persist.go", "\t\thandler(event)\n\n\t\t// Update offset\n\t\tsubStore.SaveOffset(ctx, subscriptionID, stored.Offset)\n\t\treturn nil", "\t\tsubStore.SaveOffset(ctx, subscriptionID, stored.Offset)\n\t\thandler(event)\n\t\treturn nil")])
mut("c12_subscribe_despite_replay_error", "C12", ["SubscribeWithReplay#at.C12.live.after"],
    [("persist.go", "\tif err != nil {\n\t\treturn fmt.Errorf(\"replay events: %w\", err)\n\t}\n", "\tif err != nil && ctx.Err() != nil {\n\t\treturn fmt.Errorf(\"replay events: %w\", err)\n\t}\n")])
mut("c12_ignore_load_error", "C12", ["SubscribeWithReplay#post.C12.load.err"],
    [("persist.go", "\tif err != nil {\n\t\treturn fmt.Errorf(\"load subscription offset: %w\", err)\n\t}\n", "\tif err != nil && lastOffset != OffsetOldest {\n\t\treturn fmt.Errorf(\"load subscription offset: %w\", err)\n\t}\n")])
mut("c15_reflect_name_in_replay", "C15", ["SubscribeWithReplay#at.C15.name"],
    [("persist.go", "\ttypeName := eventTypeNameOf[T]()", "\ttypeName := reflect.TypeOf((*T)(nil)).Elem().String()")])
mut("c15_typed_upcaster_returns_from", "C17", ["RegisterUpcast$1#post.C17.typed.ok"],
    [("upcast.go", "\t\treturn newData, toType, nil", "\t\treturn newData, fromType, nil")])
mut("c16_no_returned_type_check", "C16", ["(*upcastRegistry).apply#loop1.inv.C16.apply.freshMark.preserve"],
    [("upcast.go", "\t\tif appliedTypes[newType] {\n\t\t\treturn data, eventType, fmt.Errorf(\"eventbus: upcast loop detected\")\n\t\t}\n", "")])
mut("c16_check_outside_lock", "C16", ["(*upcastRegistry).register#at.C16.check.locked"],
    [("upcast.go", "\tr.mu.Lock()\n\tdefer r.mu.Unlock()\n\n\t// Check for circular dependencies\n\tif r.wouldCreateCycle(fromType, toType) {\n\t\treturn fmt.Errorf(\"eventbus: upcast would create circular dependency\")\n\t}\n",
      "\t// Check for circular dependencies\n\tif r.wouldCreateCycle(fromType, toType) {\n\t\treturn fmt.Errorf(\"eventbus: upcast would create circular dependency\")\n\t}\n\n\tr.mu.Lock()\n\tdefer r.mu.Unlock()\n")])
mut("c17_partial_on_error", "C17", ["(*upcastRegistry).apply#post.C17.apply.fail.original"],
    [("upcast.go", "\t\t\treturn data, eventType, fmt.Errorf(\"eventbus: upcast failed from %s to %s: %w\",", "\t\t\treturn currentData, currentType, fmt.Errorf(\"eventbus: upcast failed from %s to %s: %w\",")])
mut("c17_last_upcaster", "C17", ["(*upcastRegistry).apply#loop1.inv.C17.apply.chain.preserve"],
    [("upcast.go", "\t\tupcaster := upcasters[0]", "\t\tupcaster := upcasters[len(upcasters)-1]")])
mut("c17_new_timestamp", "C17", ["(*EventBus).ReplayWithUpcast$1#post.C17.cb.ok"],
    [("persist.go", "\t\t\t\t\tTimestamp: event.Timestamp,\n\t\t\t\t}\n\t\t\t\treturn handler(upcastedEvent)", "\t\t\t\t\tTimestamp: time.Now(),\n\t\t\t\t}\n\t\t\t\treturn handler(upcastedEvent)")])
# ---------------------------------------------------------------- C18 / C19
mut("c18_reset_first_only", "C18", ["state:(*Materializer).applyControl#cs.C18.reset.all"],
    [("state/materializer.go", "\t\tfor _, c := range m.collections {\n\t\t\tc.clear()\n\t\t}", "\t\tfor _, c := range m.collections {\n\t\t\tc.clear()\n\t\t\tbreak\n\t\t}")])
mut("c18_delete_bare_key", "C18", ["state:(*typedCollectionApplier[T]).applyChange#post.C18.applier.delete"],
    [("state/materializer.go", "\tcase OperationDelete:\n\t\ta.collection.store.Delete(key)", "\tcase OperationDelete:\n\t\ta.collection.store.Delete(msg.Key)")])
mut("c18_offset_before_apply", "C18 C19", ["state:(*Materializer).Apply#post.C19.offset.err"],
    [("state/materializer.go", "\tif err := m.applyChange(&changeMsg); err != nil {\n\t\treturn err\n\t}\n\n\tm.mu.Lock()\n\tm.lastOffset = event.Offset\n\tm.mu.Unlock()\n\treturn nil", "\tm.mu.Lock()\n\tm.lastOffset = event.Offset\n\tm.mu.Unlock()\n\tif err := m.applyChange(&changeMsg); err != nil {\n\t\treturn err\n\t}\n\treturn nil")])
mut("c18_strict_inverted", "C18", ["state:(*Materializer).applyChange#post.C18.route.unknown"],
    [("state/materializer.go", "\t\tif m.cfg.strictSchema {\n\t\t\treturn fmt.Errorf(\"state: unknown entity type: %s\", msg.Type)\n\t\t}", "\t\tif !m.cfg.strictSchema {\n\t\t\treturn fmt.Errorf(\"state: unknown entity type: %s\", msg.Type)\n\t\t}")])

# ---------------------------------------------------------------- C16 (reachability)
mut("c16_dfs_first_only", "C16", ["(*upcastRegistry).hasCycleDFS#post.C16.dfs.closed"],
    [("upcast.go", "\tfor _, upcaster := range r.upcasters[current] {\n\t\tif r.hasCycleDFS(upcaster.ToType, target, visited) {\n\t\t\treturn true\n\t\t}\n\t}\n\treturn false",
      "\tif ups := r.upcasters[current]; len(ups) > 0 {\n\t\treturn r.hasCycleDFS(ups[0].ToType, target, visited)\n\t}\n\treturn false")])
mut("c16_dfs_no_mark", "C16", ["(*upcastRegistry).hasCycleDFS#loop1.inv.C16.dfs.loop.target.entry"],
    [("upcast.go", "\tvisited[current] = true\n\n\tfor _, upcaster", "\tfor _, upcaster")])
mut("c16_cycle_check_swapped", "C16", ["(*upcastRegistry).wouldCreateCycle#post.C16.cycle.exact"],
    [("upcast.go", "\treturn r.hasCycleDFS(toType, fromType, visited)", "\treturn r.hasCycleDFS(fromType, toType, visited)")])
mut("c16_register_ignores_check", "C16", ["(*upcastRegistry).register#cs.C16.register.exact"],
    [("upcast.go", "\tif r.wouldCreateCycle(fromType, toType) {\n\t\treturn fmt.Errorf(\"eventbus: upcast would create circular dependency\")\n\t}\n",
      "\tif r.wouldCreateCycle(fromType, toType) && len(r.upcasters[fromType]) == 0 {\n\t\treturn fmt.Errorf(\"eventbus: upcast would create circular dependency\")\n\t}\n")])
# ---------------------------------------------------------------- sqlite SQL layer (C10/C11/C12)
mut("sqlite_save_max", "C10", ["stores/sqlite:(*SQLiteStore).prepareStatements#loop1.inv.done.preserve"],
    [("stores/sqlite/store.go", "DO UPDATE SET position = excluded.position,", "DO UPDATE SET position = MAX(position, excluded.position),")])
mut("sqlite_read_wrong_stmt", "C10", ["stores/sqlite:(*SQLiteStore).Read#post.C10.sqlite.read.query"],
    [("stores/sqlite/store.go", "\tif limit <= 0 {\n\t\trows, err = s.readFromStmt.QueryContext(ctx, position)", "\tif limit < 0 {\n\t\trows, err = s.readFromStmt.QueryContext(ctx, position)")])
mut("sqlite_read_next_first", "C10", ["stores/sqlite:(*SQLiteStore).Read#post.C10.sqlite.read.next"],
    [("stores/sqlite/store.go", "\t\tnextOffset = events[len(events)-1].Offset", "\t\tnextOffset = events[0].Offset")])
mut("sqlite_save_swapped_args", "C10", ["stores/sqlite:(*SQLiteStore).SaveOffset#post.C10.sqlite.save.args"],
    [("stores/sqlite/store.go", "\t_, err = s.saveOffsetStmt.ExecContext(ctx, subscriptionID, position)", "\t_, err = s.saveOffsetStmt.ExecContext(ctx, position, subscriptionID)")])
mut("sqlite_load_swallows_error", "C10", ["stores/sqlite:(*SQLiteStore).LoadOffset#post.C10.sqlite.load.found"],
    [("stores/sqlite/store.go", "\treturn formatOffset(position), nil\n}", "\treturn formatOffset(position + 1), nil\n}")])
mut("sqlite_batched_cursor_by_count", "C11", ["stores/sqlite:(*SQLiteStore).streamBatched#loop1.inv.C11.batched.cursor.preserve"],
    [("stores/sqlite/store.go", "\t\tcurrentPos = lastPos\n", "\t\tcurrentPos += int64(batchCount)\n"),
     ("stores/sqlite/store.go", "\t\tbatchCount, lastPos, cont := s.streamBatch(rows, eventCount, iterErr, yield)", "\t\tbatchCount, _, cont := s.streamBatch(rows, eventCount, iterErr, yield)")])
mut("sqlite_batch_no_rows_err", "C11", ["stores/sqlite:(*SQLiteStore).streamBatch#post.C11.batch.completeOnlyIfNoErr"],
    [("stores/sqlite/store.go", "\tif err := rows.Err(); err != nil {\n\t\trows.Close() // Best effort close, iteration error takes precedence", "\tif err := rows.Err(); err != nil && batchCount == 0 {\n\t\trows.Close() // Best effort close, iteration error takes precedence")])
# ---------------------------------------------------------------- decode target reuse (merge semantics of Unmarshal)
mut("c18_scratch_decode_target", "C18", ["state:(*typedCollectionApplier[T]).applyChange#post.C18.applier.set"],
    [("state/materializer.go", "type typedCollectionApplier[T any] struct {\n\tcollection *TypedCollection[T]\n}", "type typedCollectionApplier[T any] struct {\n\tcollection *TypedCollection[T]\n\tscratch    T\n}"),
     ("state/materializer.go", "\t\tvar value T\n\t\tif err := json.Unmarshal(msg.Value, &value); err != nil {", "\t\tif err := json.Unmarshal(msg.Value, &a.scratch); err != nil {"),
     ("state/materializer.go", "\t\ta.collection.store.Set(key, value)", "\t\ta.collection.store.Set(key, a.scratch)"),
    ])
# ---------------------------------------------------------------- C03 scans
mut("c03_unguarded_lastoffset_read", "C03", ["(*EventBus).persistEvent#guard.read.EventBus.lastOffset"],
    [("persist.go", "\tbus.storeMu.Unlock()\n\n\t// Observability: Track persistence complete", "\tbus.storeMu.Unlock()\n\t_ = bus.lastOffset\n\n\t// Observability: Track persistence complete")])

# ---------------------------------------------------------------- round 5: refinement, termination, pool, content
mut("c10_mem_read_inclusive", "C10", ["(*MemoryStore).Read#loop1.inv.block.preserve"],
    [("persist.go", "\t\tif from == OffsetOldest || event.Offset > from {\n\t\t\tresult = append(result, event)", "\t\tif from == OffsetOldest || event.Offset >= from {\n\t\t\tresult = append(result, event)")])
mut("c10_mem_read_next_stale", "C10", ["(*MemoryStore).Read#cs.C10.read.r5a"],
    [("persist.go", "\t\t\tresult = append(result, event)\n\t\t\tlastOffset = event.Offset\n", "\t\t\tresult = append(result, event)\n\t\t\tif limit <= 0 {\n\t\t\t\tlastOffset = event.Offset\n\t\t\t}\n")])
mut("c16_dfs_mark_dropped", "C16", ["(*upcastRegistry).hasCycleDFS#loop1.inv.C16.dfs.loop.target.entry"],
    [("upcast.go", "\tvisited[current] = true\n", "\t_ = visited[current]\n")])
mut("c03_sqlite_single_conn", "C03", ["stores/sqlite:New#post.C03.sqlite.pool"],
    [("stores/sqlite/store.go", "\t// Apply pragmas for performance\n", "\tdb.SetMaxOpenConns(1)\n\t// Apply pragmas for performance\n")])
mut("c19_ds_read_type_from_offset", "C19 C10", ["stores/durablestream:(*Store).Read#loop1.inv.C10.ds.read.content.preserve"],
    [("stores/durablestream/store.go", "\t\t\tType:      eventWithOffset.Type,\n", "\t\t\tType:      eventWithOffset.Type + eventWithOffset.Offset,\n")])

def main():
    os.makedirs(OUT, exist_ok=True)
    for f in os.listdir(OUT):
        if f.endswith(".patch"):
            os.remove(os.path.join(OUT, f))
    ok = True
    for name, props, expects, edits in M:
        tmp = tempfile.mkdtemp(prefix="mutgen-")
        try:
            a, b = os.path.join(tmp, "a"), os.path.join(tmp, "b")
            os.makedirs(a); os.makedirs(b)
            files = sorted(set(e[0] for e in edits))
            for f in files:
                for d in (a, b):
                    os.makedirs(os.path.dirname(os.path.join(d, f)), exist_ok=True)
                    shutil.copy(os.path.join(REPO, f), os.path.join(d, f))
            for f, old, new in edits:
                p = os.path.join(b, f)
                s = open(p).read()
                if old not in s:
                    print("STALE", name, "in", f); ok = False
                    continue
                open(p, "w").write(s.replace(old, new, 1))
            r = subprocess.run(["diff", "-ruN", "a", "b"], cwd=tmp, capture_output=True, text=True)
            hdr = "# mutant: %s\n# property: %s\n" % (name, props) + "".join("# expect: %s\n" % e for e in expects)
            open(os.path.join(OUT, name + ".patch"), "w").write(hdr + r.stdout)
        finally:
            shutil.rmtree(tmp)
    print(len(M), "mutants written to", OUT, "ok" if ok else "WITH STALE EDITS")
    return 0 if ok else 1

if __name__ == "__main__":
    sys.exit(main())
