/-
Finite-set lemmas behind the axioms `finite.*` and `unvisited.*` of /verif/contracts/prelude.spec
(used by the C16 termination variants).  `unvisited D S` is the number of elements of the
finite set `D` that are not in `S`.  Checked by `lean /verif/lemmas/lean/FiniteMeasure.lean`
(Lean 4 + Mathlib, offline).
-/
import Mathlib.Data.Set.Card

variable {α : Type}

noncomputable def unvisited (D S : Set α) : ℕ := (D \ S).ncard

/-- finite.empty -/
theorem finite_empty (S : Set α) (h : ∀ x, x ∉ S) : S.Finite := by
  have : S = ∅ := Set.eq_empty_iff_forall_notMem.mpr h
  rw [this]; exact Set.finite_empty

/-- finite.add: S2 = S ∪ {t} -/
theorem finite_add (S S2 : Set α) (t : α) (h : ∀ x, x ∈ S2 ↔ (x ∈ S ∨ x = t)) (hf : S.Finite) : S2.Finite := by
  have : S2 = insert t S := by
    ext x; rw [h x, Set.mem_insert_iff]; exact or_comm
  rw [this]; exact hf.insert t

/-- finite.sub -/
theorem finite_sub (S S2 : Set α) (h : ∀ x, x ∈ S2 → x ∈ S) (hf : S.Finite) : S2.Finite :=
  hf.subset h

/-- unvisited.add: marking an unvisited element of a finite D strictly decreases the measure
    (unvisited.nonneg is immediate: the measure is a natural number) -/
theorem unvisited_add (D S S2 : Set α) (t : α) (h : ∀ x, x ∈ S2 ↔ (x ∈ S ∨ x = t))
    (hD : D.Finite) (ht : t ∈ D) (hn : t ∉ S) : unvisited D S2 < unvisited D S := by
  unfold unvisited
  have hfin : (D \ S).Finite := hD.subset Set.sdiff_subset
  have hmem : t ∈ D \ S := ⟨ht, hn⟩
  have : D \ S2 = (D \ S) \ {t} := by
    ext x
    simp only [Set.mem_sdiff, Set.mem_singleton_iff, h x, not_or]
    tauto
  rw [this]
  exact Set.ncard_sdiff_singleton_lt_of_mem hmem hfin

/-- unvisited.mono: marking more elements never increases the measure -/
theorem unvisited_mono (D S S2 : Set α) (h : ∀ x, x ∈ S → x ∈ S2) (hD : D.Finite) :
    unvisited D S2 ≤ unvisited D S := by
  unfold unvisited
  have hfin : (D \ S).Finite := hD.subset Set.sdiff_subset
  apply Set.ncard_le_ncard _ hfin
  intro x hx
  exact ⟨hx.1, fun hs => hx.2 (h x hs)⟩
