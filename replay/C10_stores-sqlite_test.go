package sqlite

// Replay driver for C10, sqlite store (injected with `go test -overlay`).

import (
	"context"
	"encoding/json"
	"os"
	"strings"
	"testing"
	"time"

	eventbus "github.com/jilio/ebu"
)

// lemma#C10.sqlite.lexmono: the solver's model is a pair of positions a < b
// whose decimal renderings compare the other way round (9 and 10).  Replayed
// on the real store: append events and compare consecutive offsets with the
// documented lexicographic comparison.
func TestVerifReplayC10(t *testing.T) {
	ob := os.Getenv("VERIF_OBLIGATION")
	if ob != "" && !strings.Contains(ob, "lexmono") {
		t.Skip("no replay driver for " + ob)
	}
	store, err := New(":memory:")
	if err != nil {
		t.Fatal(err)
	}
	defer store.Close()
	ctx := context.Background()
	var prev eventbus.Offset
	for i := 1; i <= 12; i++ {
		off, err := store.Append(ctx, &eventbus.Event{Type: "t", Data: json.RawMessage(`{}`), Timestamp: time.Unix(int64(i), 0)})
		if err != nil {
			t.Fatal(err)
		}
		if i > 1 && !(string(prev) < string(off)) {
			t.Fatalf("append %d got offset %q, which is not lexicographically greater than the previous offset %q", i, off, prev)
		}
		prev = off
	}
}
