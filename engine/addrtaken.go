package main

// Interior pointers to struct fields.  Fields live in per-field heaps
// (F!S!f); a pointer value &x.f that escapes as a value (stored, passed to
// unknown code, captured) is the term faddr!S!f(x).  A load or store through
// an arbitrary pointer b of the same element sort consults the field heap when
// ftag(b) identifies b as such an address, so aliasing between *p and x.f is
// decided by the solver instead of being ignored.

import (
	"fmt"
	"go/types"
	"sort"
	"strings"

	"golang.org/x/tools/go/ssa"
)

type atField struct {
	styp  types.Type
	field int
	tag   int
}

// pointerStubCallee: library functions whose stubs handle pointer arguments
// themselves (the address does not become a first-class value).
func pointerStubCallee(c *ssa.CallCommon) bool {
	if c.IsInvoke() {
		return c.Method.Name() == "Scan"
	}
	if f := c.StaticCallee(); f != nil {
		full := f.String()
		if strings.HasPrefix(full, "sync/atomic.") || strings.HasPrefix(full, "(*sync.") || strings.HasPrefix(full, "(*sync/atomic.") {
			return true
		}
		if full == "encoding/json.Unmarshal" || strings.HasSuffix(full, ").Scan") {
			return true
		}
	}
	return false
}

// escapesAsValue: does the address computed by v become a first-class value?
func escapesAsValue(v ssa.Value, depth int) bool {
	if depth > 6 {
		return true
	}
	refs := v.Referrers()
	if refs == nil {
		return false
	}
	for _, r := range *refs {
		switch x := r.(type) {
		case *ssa.Store:
			if x.Val == v {
				// stored into a varargs array that only feeds a pointer-handling stub?
				if ia, ok := x.Addr.(*ssa.IndexAddr); ok {
					if al, ok := ia.X.(*ssa.Alloc); ok && !arrayEscapes(al) {
						continue
					}
				}
				return true
			}
		case *ssa.UnOp, *ssa.DebugRef:
		case *ssa.FieldAddr:
			if escapesAsValue(x, depth+1) {
				return true
			}
		case *ssa.IndexAddr:
			if escapesAsValue(x, depth+1) {
				return true
			}
		case *ssa.Call:
			if !pointerStubCallee(&x.Call) {
				return true
			}
		case *ssa.Defer:
			if !pointerStubCallee(&x.Call) {
				return true
			}
		case *ssa.Go:
			return true
		case *ssa.MakeInterface:
			if escapesAsValue(x, depth+1) {
				return true
			}
		default:
			return true
		}
	}
	return false
}

// arrayEscapes: a varargs backing array whose slice only goes to stub calls.
func arrayEscapes(al *ssa.Alloc) bool {
	for _, r := range *al.Referrers() {
		switch x := r.(type) {
		case *ssa.IndexAddr, *ssa.DebugRef:
		case *ssa.Slice:
			for _, r2 := range *x.Referrers() {
				switch c := r2.(type) {
				case *ssa.Call:
					if !pointerStubCallee(&c.Call) {
						return true
					}
				case *ssa.DebugRef:
				default:
					return true
				}
			}
		default:
			return true
		}
	}
	return false
}

// computeAddrTaken scans the package for fields whose address escapes as a value.
func (e *Engine) computeAddrTaken() {
	seen := map[string]*atField{}
	var visit func(fn *ssa.Function)
	visit = func(fn *ssa.Function) {
		for _, b := range fn.Blocks {
			for _, in := range b.Instrs {
				fa, ok := in.(*ssa.FieldAddr)
				if !ok {
					continue
				}
				pt := fa.X.Type().Underlying().(*types.Pointer).Elem()
				st := pt.Underlying().(*types.Struct)
				ft := st.Field(fa.Field).Type()
				if _, isStruct := ft.Underlying().(*types.Struct); isStruct {
					continue // struct-typed fields are addressed by their owner
				}
				if !escapesAsValue(fa, 0) {
					continue
				}
				key := structName(pt) + "." + st.Field(fa.Field).Name()
				if _, ok := seen[key]; !ok {
					seen[key] = &atField{styp: pt, field: fa.Field}
				}
			}
		}
		for _, af := range fn.AnonFuncs {
			visit(af)
		}
	}
	for _, fn := range e.allPackageFuncs() {
		if fn.Parent() == nil {
			visit(fn)
		}
	}
	keys := make([]string, 0, len(seen))
	for k := range seen {
		keys = append(keys, k)
	}
	sort.Strings(keys)
	e.addrTaken = nil
	e.addrTakenKeys = keys
	for i, k := range keys {
		seen[k].tag = i + 1
		e.addrTaken = append(e.addrTaken, seen[k])
	}
}

func (u *Unit) declFtag() {
	u.decls.Add("ftag", "(declare-fun ftag (Int) Int)")
}

func ftagOf(b T) T { return app(SInt, "ftag", b) }

// fieldAddrTerm: the value of &base.f for an address-taken field (nil if the
// field is not one).
func (u *Unit) fieldAddrTerm(styp types.Type, field int, base T) (T, bool) {
	for _, af := range u.eng.addrTaken {
		if structName(af.styp) == structName(styp) && af.field == field {
			u.declFtag()
			fname := af.styp.Underlying().(*types.Struct).Field(field).Name()
			sfx := structName(styp) + "!" + fname
			u.decls.Add("faddr!"+sfx, fmt.Sprintf("(declare-fun faddr!%s (Int) Int)\n(declare-fun owner!%s (Int) Int)\n(assert (forall ((o Int)) (! (and (= (owner!%s (faddr!%s o)) o) (= (ftag (faddr!%s o)) %d) (> (faddr!%s o) 0)) :pattern ((faddr!%s o)))))", sfx, sfx, sfx, sfx, sfx, af.tag, sfx, sfx))
			return app(SInt, "faddr!"+sfx, base), true
		}
	}
	return T{}, false
}

// aliasedFields: the address-taken fields whose value sort is es.
func (u *Unit) aliasedFields(pointee types.Type) []*atField {
	var out []*atField
	for _, af := range u.eng.addrTaken {
		ft := af.styp.Underlying().(*types.Struct).Field(af.field).Type()
		if pointee == nil || types.Identical(ft, pointee) || u.sortOf(ft) == u.sortOf(pointee) && (isTypeParam(pointee) || isTypeParam(ft)) {
			out = append(out, af)
		}
	}
	return out
}

func (u *Unit) ownerOf(af *atField, b T) T {
	fname := af.styp.Underlying().(*types.Struct).Field(af.field).Name()
	sfx := structName(af.styp) + "!" + fname
	u.fieldAddrTerm(af.styp, af.field, IntLit(0)) // declarations
	return app(SInt, "owner!"+sfx, b)
}

// knownPlainRef: b is syntactically a reference created by this activation (a
// promoted local, a fresh object): never a field address.
func (u *Unit) knownPlainRef(s *State, b T) bool {
	for _, p := range s.private {
		if p.ref.S == b.S {
			return true
		}
	}
	return false
}
