module automut

go 1.26.0
