package eventbus

// Replay driver for C15 (injected with `go test -overlay`).

import (
	"context"
	"testing"
)

type verifC15Plain struct{ N int }
type verifC15ValNamed struct{ N int }

func (verifC15ValNamed) EventTypeName() string { return "verif.c15.value-named" }

type verifC15PtrNamed struct{ N int }

func (*verifC15PtrNamed) EventTypeName() string { return "verif.c15.pointer-named" }

type verifC15V2 struct{ N, M int }

func (verifC15V2) EventTypeName() string { return "verif.c15.v2" }

func verifC15Roundtrip[T any](t *testing.T, name string, ev T) {
	store := NewMemoryStore()
	bus := New(WithStore(store))
	Publish(bus, ev)
	evs, _, _ := store.Read(context.Background(), OffsetOldest, 0)
	if len(evs) != 1 || evs[0].Type != EventType(ev) {
		t.Errorf("%s: persisted under %q, EventType reports %q", name, evs[0].Type, EventType(ev))
	}
	bus2 := New(WithStore(store))
	got := 0
	if err := SubscribeWithReplay(context.Background(), bus2, "sub-"+name, func(T) { got++ }); err != nil {
		t.Fatalf("%s: %v", name, err)
	}
	if got != 1 {
		t.Errorf("%s: SubscribeWithReplay[%T] received %d of 1 persisted events", name, ev, got)
	}
}

func TestVerifReplayC15(t *testing.T) {
	verifC15Roundtrip(t, "plain", verifC15Plain{1})
	verifC15Roundtrip(t, "pointer", &verifC15Plain{1})
	verifC15Roundtrip(t, "value-named", verifC15ValNamed{1})
	verifC15Roundtrip(t, "pointer-to-value-named", &verifC15ValNamed{1})
	verifC15Roundtrip(t, "pointer-named", &verifC15PtrNamed{1})
	// typed upcaster selected by the persisted name
	store := NewMemoryStore()
	bus := New(WithStore(store))
	Publish(bus, verifC15ValNamed{7})
	bus2 := New(WithStore(store))
	if err := RegisterUpcast(bus2, func(o verifC15ValNamed) verifC15V2 { return verifC15V2{o.N, 1} }); err != nil {
		t.Fatal(err)
	}
	var types []string
	bus2.ReplayWithUpcast(context.Background(), OffsetOldest, func(e *StoredEvent) error { types = append(types, e.Type); return nil })
	if len(types) != 1 || types[0] != EventType(verifC15V2{}) {
		t.Errorf("typed upcaster for a custom-named type was not applied: callback saw types %v, want [%s]", types, EventType(verifC15V2{}))
	}
}
