package main

// Contract files: parsing of the `//@` clause language.
//
// A contract file is a comment-only Go file (build tag verif) inside the
// package it specifies, or a *.spec file under /verif/contracts for assumed
// dependency contracts.  Grammar (one clause per keyword line, continuation
// lines are any `//@` line not starting with a keyword):
//
//   func NAME                      start a function block (ssa RelString name)
//   callback TYPE(p1, p2, ...)     start a block for a function *type*
//   method IFACE.METHOD(p1, ...)   start a block for an interface method
//     props C01 C02                properties all implicit obligations serve
//     requires EXPR
//     ensures [label] {C01,C02} EXPR
//     onpanic [label] {..} EXPR    must hold when the function exits by panic
//     loop K invariant [label] {..} EXPR
//     loop K iter [label] {..} EXPR   per-iteration postcondition (at every back edge)
//     at MARK assert [label] {..} EXPR  (MARK = call:<callee>#n)
//     maypanic                     callee may panic (default: never)
//     effect pure|opaque|reentrant|inherit
//     trusted                      contract is assumed, body not verified
//   ghost NAME(Sort, ...) Sort     uninterpreted function
//   axiom [label] EXPR
//   event NAME := call PATTERN [key EXPR]
//   guarded STRUCT.FIELD by STRUCT.MU
//   immutable STRUCT.FIELD, ...
//   lockinv STRUCT.MU(this) EXPR
//   level STRUCT.MU N

import (
	"fmt"
	"go/ast"
	"go/parser"
	"os"
	"regexp"
	"strconv"
	"strings"
)

type Clause struct {
	Kind  string // requires ensures onpanic invariant iter assert axiom lockinv
	Label string
	Props []string
	Loop  int
	Mark  string
	NoAssume bool // at-clause that is proved but not added to the path condition
	GhostTarget string // ghostnew: NAME(key) of the ghost heap entry that gets a fresh value
	Text  string
	Expr  SE
	Pos   string
}

type FuncSpec struct {
	Name      string
	Kind      string // func | callback | method
	Params    []string
	Props     []string
	Requires  []*Clause
	Ensures   []*Clause
	OnPanic   []*Clause
	LoopInv   map[int][]*Clause
	LoopIter  map[int][]*Clause
	Asserts   []*Clause
	MayPanic  bool
	Effect    string
	Trusted   bool
	Inline    bool
	Pos       string
	LoopMod   map[int][]string // extra havoc names
	LoopOwned map[int][]string
	LoopGhost map[int][]*LoopGhost // specification-only loop variables
	Excludes  map[string]bool  // `excludes resulttrue|resultfalse|errnil`: an outcome the contract rules out on purpose
	Pathwise  bool             // no state merging at joins: every obligation is proved path by path
	Unlocked  bool             // callback must be invoked with no level>=1 lock held
	Covers    []*Clause
	Decreases []*Clause
	Alias     string
	IterInv   []*Clause // iterate invariant: invariants of an iterator call (range-over-func), may mention iterk
	Modifies  []string // ghost heap entries the callee may change: NAME(keyexpr)
	Facts     []*Clause // fact EXPR: assumed about the closure value `self` when the literal escapes
	ChanInvs  []*Clause // chaninv NAME EXPR (Clause.Mark = channel variable name)
	EffectStruct string // for `effect fields`: the struct whose fields are listed (effectstruct NAME)
}

type GhostFn struct {
	Name string
	Args []Sort
	Ret  Sort
}

type EventDecl struct {
	Name    string
	Pattern string // callee pattern
	Key     SE
	KeyText string
	Record  bool // keep the arguments of every call: nth(ev, k, i)
	RecordArgs map[int]Sort
}

// GhostHeap: spec-level state  NAME(key) : Val, havoc'd like any heap.
type GhostHeap struct {
	Name     string
	Key, Val Sort
	Mono     string // optional binary predicate: after a havoc, Mono(new(k), old(k)) for all k
	Internal bool   // not reachable by user code: unaffected by re-entrant callbacks
}

// LoopGhost: a specification-only variable of a loop (ghost state): INIT at
// entry, STEP at the end of every iteration; invariants may mention it.
type LoopGhost struct {
	Name string
	Sort Sort
	Init SE
	Step SE
}

type GuardDecl struct{ Struct, Field, MuStruct, Mu string }

type LockInv struct {
	Struct, Mu string
	This       string
	C          *Clause
}

type SpecDB struct {
	Funcs     map[string]*FuncSpec
	Callbacks map[string]*FuncSpec
	Methods   map[string]*FuncSpec
	Ghosts    map[string]*GhostFn
	SetterOnly map[string]bool
	Axioms    []*Clause
	Events    []*EventDecl
	Guarded   []GuardDecl
	Immutable map[string]bool // "Struct.field"
	LockInvs  []*LockInv
	Levels    map[string]int // "Struct.mu" -> level
	Defs      map[string]*SpecDef
	InitWriters map[string]bool
	ImmutableProps map[string][]string
	Atomic map[string][]string
	Files     []string
	GhostHeaps map[string]*GhostHeap
}

// SpecDef is a named spec-level macro: def name(a, b) EXPR
type SpecDef struct {
	Name   string
	Params []string
	Body   SE
}

func NewSpecDB() *SpecDB {
	return &SpecDB{Funcs: map[string]*FuncSpec{}, Callbacks: map[string]*FuncSpec{}, Methods: map[string]*FuncSpec{},
		Ghosts: map[string]*GhostFn{}, SetterOnly: map[string]bool{}, Immutable: map[string]bool{}, Levels: map[string]int{}, Defs: map[string]*SpecDef{}, InitWriters: map[string]bool{}, GhostHeaps: map[string]*GhostHeap{}, ImmutableProps: map[string][]string{}, Atomic: map[string][]string{}}
}

var keywords = map[string]bool{"func": true, "callback": true, "method": true, "props": true, "requires": true,
	"ensures": true, "onpanic": true, "loop": true, "at": true, "maypanic": true, "effect": true, "trusted": true,
	"ghost": true, "axiom": true, "event": true, "guarded": true, "immutable": true, "lockinv": true, "level": true,
	"inline": true, "def": true, "unlocked": true, "cover": true, "alias": true, "initwriter": true, "setteronly": true, "atomic": true, "effectstruct": true, "chaninv": true, "fact": true, "ghostheap": true, "modifies": true, "iterate": true, "pathwise": true, "decreases": true, "excludes": true}

var reLabel = regexp.MustCompile(`^\[([^\]]+)\]\s*`)
var reProps = regexp.MustCompile(`^\{([^}]*)\}\s*`)

func (db *SpecDB) LoadFile(path string) error {
	data, err := os.ReadFile(path)
	if err != nil {
		return err
	}
	db.Files = append(db.Files, path)
	type rawClause struct {
		text string
		line int
	}
	var clauses []rawClause
	for i, line := range strings.Split(string(data), "\n") {
		t := strings.TrimSpace(line)
		var body string
		switch {
		case strings.HasPrefix(t, "//@"):
			body = t[3:]
		case strings.HasPrefix(t, "// @"):
			body = t[4:]
		default:
			continue
		}
		body = strings.TrimSpace(body)
		if body == "" {
			continue
		}
		first := body
		if j := strings.IndexAny(body, " \t"); j >= 0 {
			first = body[:j]
		}
		if keywords[first] || len(clauses) == 0 {
			clauses = append(clauses, rawClause{body, i + 1})
		} else {
			clauses[len(clauses)-1].text += " " + body
		}
	}
	var cur *FuncSpec
	for _, rc := range clauses {
		pos := fmt.Sprintf("%s:%d", path, rc.line)
		kw, rest := splitWord(rc.text)
		fail := func(e error) error { return fmt.Errorf("%s: %v (in %q)", pos, e, rc.text) }
		switch kw {
		case "func", "callback", "method":
			name, params := rest, []string(nil)
			if kw != "func" || strings.HasSuffix(rest, ")") {
				if i := strings.LastIndex(rest, "("); i >= 0 && strings.HasSuffix(rest, ")") {
					name = strings.TrimSpace(rest[:i])
					for _, p := range strings.Split(rest[i+1:len(rest)-1], ",") {
						if p = strings.TrimSpace(p); p != "" {
							params = append(params, p)
						}
					}
				}
			}
			cur = &FuncSpec{Name: name, Kind: kw, Params: params, LoopInv: map[int][]*Clause{}, LoopIter: map[int][]*Clause{}, LoopMod: map[int][]string{}, LoopOwned: map[int][]string{}, Pos: pos}
			switch kw {
			case "func":
				if db.Funcs[name] != nil {
					return fail(fmt.Errorf("duplicate func block %s", name))
				}
				db.Funcs[name] = cur
			case "callback":
				db.Callbacks[name] = cur
			case "method":
				db.Methods[name] = cur
			}
		case "props":
			cur.Props = strings.Fields(rest)
		case "maypanic":
			cur.MayPanic = true
		case "trusted":
			cur.Trusted = true
		case "inline":
			cur.Inline = true
		case "unlocked":
			cur.Unlocked = true
		case "pathwise":
			cur.Pathwise = true
		case "excludes":
			if cur.Excludes == nil {
				cur.Excludes = map[string]bool{}
			}
			for _, w := range strings.Fields(rest) {
				cur.Excludes[w] = true
			}
		case "alias":
			cur.Alias = strings.TrimSpace(rest)
		case "fact":
			c, err := parseClause("fact", rest, pos)
			if err != nil {
				return fail(err)
			}
			cur.Facts = append(cur.Facts, c)
		case "chaninv":
			nm, r2 := splitWord(rest)
			c, err := parseClause("chaninv", r2, pos)
			if err != nil {
				return fail(err)
			}
			c.Mark = nm
			cur.ChanInvs = append(cur.ChanInvs, c)
		case "effectstruct":
			cur.EffectStruct = strings.TrimSpace(rest)
		case "effect":
			cur.Effect = strings.TrimSpace(rest)
		case "decreases":
			// variant of a self-recursive function: at every recursive call the callee's value
			// must be smaller than the caller's value at entry, which must be non-negative
			c, err := parseClause(kw, rest, pos)
			if err != nil {
				return fail(err)
			}
			if cur == nil {
				return fail(fmt.Errorf("clause outside block"))
			}
			cur.Decreases = append(cur.Decreases, c)
		case "requires", "ensures", "onpanic", "cover":
			c, err := parseClause(kw, rest, pos)
			if err != nil {
				return fail(err)
			}
			if cur == nil {
				return fail(fmt.Errorf("clause outside block"))
			}
			switch kw {
			case "requires":
				cur.Requires = append(cur.Requires, c)
			case "ensures":
				cur.Ensures = append(cur.Ensures, c)
			case "onpanic":
				cur.OnPanic = append(cur.OnPanic, c)
			case "cover":
				cur.Covers = append(cur.Covers, c)
			}
		case "loop":
			ks, r2 := splitWord(rest)
			k, err := strconv.Atoi(ks)
			if err != nil {
				return fail(err)
			}
			sub, r3 := splitWord(r2)
			switch sub {
			case "invariant", "iter":
				c, err := parseClause(sub, r3, pos)
				if err != nil {
					return fail(err)
				}
				c.Loop = k
				if sub == "invariant" {
					cur.LoopInv[k] = append(cur.LoopInv[k], c)
				} else {
					cur.LoopIter[k] = append(cur.LoopIter[k], c)
				}
			case "modifies":
				cur.LoopMod[k] = append(cur.LoopMod[k], strings.Fields(strings.ReplaceAll(r3, ",", " "))...)
			case "owned":
				cur.LoopOwned[k] = append(cur.LoopOwned[k], strings.Fields(strings.ReplaceAll(r3, ",", " "))...)
			case "ghost", "ghoststep":
				// loop K ghost NAME SORT := INIT     a specification-only variable of the loop
				// loop K ghoststep NAME := EXPR      its new value at the end of every iteration
				parts := strings.SplitN(r3, ":=", 2)
				if len(parts) != 2 {
					return fail(fmt.Errorf("expected `loop K %s NAME ... := EXPR`", sub))
				}
				hd := strings.Fields(parts[0])
				e, err := parseSE(strings.TrimSpace(parts[1]))
				if err != nil {
					return fail(err)
				}
				if cur.LoopGhost == nil {
					cur.LoopGhost = map[int][]*LoopGhost{}
				}
				if sub == "ghost" {
					if len(hd) != 2 {
						return fail(fmt.Errorf("expected `loop K ghost NAME SORT := INIT`"))
					}
					cur.LoopGhost[k] = append(cur.LoopGhost[k], &LoopGhost{Name: hd[0], Sort: specSort(hd[1]), Init: e})
				} else {
					found := false
					for _, g := range cur.LoopGhost[k] {
						if len(hd) == 1 && g.Name == hd[0] {
							g.Step = e
							found = true
						}
					}
					if !found {
						return fail(fmt.Errorf("ghoststep for undeclared loop ghost"))
					}
				}
			default:
				return fail(fmt.Errorf("unknown loop clause %q", sub))
			}
		case "at":
			// `at MARK ghostnew NAME(key) with E`: ghost update - the ghost heap entry gets a
			// fresh value about which E (the observations defining it) is assumed
			if k := strings.Index(rest, " ghostnew "); k >= 0 {
				mark := strings.TrimSpace(rest[:k])
				body := rest[k+len(" ghostnew "):]
				w := strings.Index(body, " with ")
				if w < 0 {
					return fail(fmt.Errorf("expected `at MARK ghostnew NAME(key) with EXPR`"))
				}
				c, err := parseClause("ghostnew", body[w+len(" with "):], pos)
				if err != nil {
					return fail(err)
				}
				c.Mark = mark
				c.GhostTarget = strings.TrimSpace(body[:w])
				cur.Asserts = append(cur.Asserts, c)
				break
			}
			// `at MARK assert E`: proved, then assumed; `at MARK check E`: proved only
			kw := " assert "
			k := strings.Index(rest, kw)
			if k < 0 {
				kw = " check "
				k = strings.Index(rest, kw)
			}
			if k < 0 {
				return fail(fmt.Errorf("expected `at MARK assert|check EXPR`"))
			}
			mark := strings.TrimSpace(rest[:k])
			c, err := parseClause("assert", rest[k+len(kw):], pos)
			if err != nil {
				return fail(err)
			}
			c.Mark = mark
			c.NoAssume = kw == " check "
			cur.Asserts = append(cur.Asserts, c)
		case "ghost":
			m := regexp.MustCompile(`^(\w+)\(([^)]*)\)\s*(\S+)$`).FindStringSubmatch(rest)
			if m == nil {
				return fail(fmt.Errorf("bad ghost decl"))
			}
			g := &GhostFn{Name: m[1], Ret: specSort(m[3])}
			for _, a := range strings.Split(m[2], ",") {
				if a = strings.TrimSpace(a); a != "" {
					g.Args = append(g.Args, specSort(a))
				}
			}
			db.Ghosts[g.Name] = g
		case "def":
			m := regexp.MustCompile(`^(\w+)\(([^)]*)\)\s*(.*)$`).FindStringSubmatch(rest)
			if m == nil {
				return fail(fmt.Errorf("bad def"))
			}
			d := &SpecDef{Name: m[1]}
			for _, a := range strings.Split(m[2], ",") {
				if a = strings.TrimSpace(a); a != "" {
					d.Params = append(d.Params, a)
				}
			}
			body, err := parseSE(m[3])
			if err != nil {
				return fail(err)
			}
			d.Body = body
			db.Defs[d.Name] = d
		case "axiom":
			c, err := parseClause("axiom", rest, pos)
			if err != nil {
				return fail(err)
			}
			db.Axioms = append(db.Axioms, c)
		case "event":
			m := regexp.MustCompile(`^(\w+)\s*:=\s*call\s+(.+?)(?:\s+key\s+(.*))?$`).FindStringSubmatch(rest)
			if m == nil {
				return fail(fmt.Errorf("bad event decl"))
			}
			ev := &EventDecl{Name: m[1], Pattern: m[2], KeyText: m[3]}
			if k := strings.Index(ev.Pattern, " record"); k >= 0 {
				spec := strings.Fields(ev.Pattern[k+len(" record"):])
				ev.Pattern = strings.TrimSpace(ev.Pattern[:k])
				ev.Record = true
				ev.RecordArgs = map[int]Sort{}
				for _, f := range spec {
					parts := strings.SplitN(f, ":", 2)
					if n, err := strconv.Atoi(parts[0]); err == nil && len(parts) == 2 {
						ev.RecordArgs[n] = specSort(parts[1])
					}
					if parts[0] == "res" && len(parts) == 2 {
						// the (first) result of every call: nthres(ev, k); stored under index -1
						ev.RecordArgs[-1] = specSort(parts[1])
					}
				}
				if len(ev.RecordArgs) == 0 {
					ev.RecordArgs[1] = SInt
				}
			}
			if m[3] != "" {
				k, err := parseSE(m[3])
				if err != nil {
					return fail(err)
				}
				ev.Key = k
			}
			db.Events = append(db.Events, ev)
		case "iterate":
			sub, r3 := splitWord(rest)
			if sub != "invariant" {
				return fail(fmt.Errorf("expected `iterate invariant`"))
			}
			c, err := parseClause("iterinv", r3, pos)
			if err != nil {
				return fail(err)
			}
			cur.IterInv = append(cur.IterInv, c)
		case "ghostheap":
			f := strings.Fields(rest)
			if len(f) < 3 {
				return fail(fmt.Errorf("ghostheap NAME KeySort ValSort [mono PRED]"))
			}
			gh := &GhostHeap{Name: f[0], Key: specSort(f[1]), Val: specSort(f[2])}
			if len(f) == 5 && f[3] == "mono" {
				gh.Mono = f[4]
			}
			if len(f) == 4 && f[3] == "internal" {
				gh.Internal = true
			}
			db.GhostHeaps[gh.Name] = gh
		case "modifies":
			cur.Modifies = append(cur.Modifies, strings.TrimSpace(rest))
		case "guarded":
			m := regexp.MustCompile(`^(\w+)\.(\w+)\s+by\s+(\w+)\.(\w+)$`).FindStringSubmatch(rest)
			if m == nil {
				return fail(fmt.Errorf("bad guarded decl"))
			}
			db.Guarded = append(db.Guarded, GuardDecl{m[1], m[2], m[3], m[4]})
		case "immutable", "atomic":
			var props []string
			if m := reProps.FindStringSubmatch(rest); m != nil {
				props = strings.Fields(strings.ReplaceAll(m[1], ",", " "))
				rest = rest[len(m[0]):]
			}
			for _, f := range strings.Fields(strings.ReplaceAll(rest, ",", " ")) {
				if kw == "immutable" {
					db.Immutable[f] = true
					db.ImmutableProps[f] = props
				} else {
					db.Atomic[f] = props
				}
			}
		case "initwriter":
			for _, f := range strings.Fields(strings.ReplaceAll(rest, ",", " ")) {
				db.InitWriters[f] = true
			}
		case "setteronly":
			for _, f := range strings.Fields(strings.ReplaceAll(rest, ",", " ")) {
				db.SetterOnly[f] = true
			}
		case "level":
			a, b := splitWord(rest)
			n, err := strconv.Atoi(strings.TrimSpace(b))
			if err != nil {
				return fail(err)
			}
			db.Levels[a] = n
		case "lockinv":
			m := regexp.MustCompile(`^(\w+)\.(\w+)\((\w+)\)\s+(.*)$`).FindStringSubmatch(rest)
			if m == nil {
				return fail(fmt.Errorf("bad lockinv"))
			}
			c, err := parseClause("lockinv", m[4], pos)
			if err != nil {
				return fail(err)
			}
			db.LockInvs = append(db.LockInvs, &LockInv{Struct: m[1], Mu: m[2], This: m[3], C: c})
		default:
			return fail(fmt.Errorf("unknown keyword %q", kw))
		}
	}
	return nil
}

func specSort(s string) Sort {
	switch s {
	case "int", "Int", "ref", "type", "fn":
		return SInt
	case "bool", "Bool":
		return SBool
	case "string", "String", "bytes":
		return SStr
	case "iface", "Iface":
		return SIface
	case "slice", "Slice":
		return SSlice
	case "intmap":
		return ArrSort(SInt, SInt)
	case "strmap_int":
		return ArrSort(SStr, SInt)
	case "strmap_str":
		return ArrSort(SStr, SStr)
	case "strset":
		return ArrSort(SStr, SBool)
	case "strrel":
		return ArrSort(SStr, ArrSort(SStr, SBool))
	}
	return Sort(s)
}

func splitWord(s string) (string, string) {
	s = strings.TrimSpace(s)
	if i := strings.IndexAny(s, " \t"); i >= 0 {
		return s[:i], strings.TrimSpace(s[i+1:])
	}
	return s, ""
}

func parseClause(kind, text, pos string) (*Clause, error) {
	c := &Clause{Kind: kind, Pos: pos}
	text = strings.TrimSpace(text)
	if m := reLabel.FindStringSubmatch(text); m != nil {
		c.Label = m[1]
		text = text[len(m[0]):]
	}
	if m := reProps.FindStringSubmatch(text); m != nil {
		c.Props = strings.Fields(strings.ReplaceAll(m[1], ",", " "))
		text = text[len(m[0]):]
	}
	// a label of the form [Cnn.xxx] ties the clause to that property alone
	if l := c.Label; len(c.Props) == 0 && len(l) > 4 && l[0] == 'C' && l[1] >= '0' && l[1] <= '9' && l[2] >= '0' && l[2] <= '9' && l[3] == '.' {
		c.Props = []string{l[:3]}
	}
	c.Text = text
	e, err := parseSE(text)
	if err != nil {
		return nil, err
	}
	c.Expr = e
	return c, nil
}

// ------------------------------------------------------- spec expressions

type SE interface{}

type SEImp struct{ A, B SE }
type SEIff struct{ A, B SE }
type SEQuant struct {
	Forall   bool
	Vars     []QVar
	Body     SE
	Triggers []SE   // first group (conjunctive multi-pattern)
	AltTriggers [][]SE // further alternative groups
}
type QVar struct {
	Name string
	Sort string // Go-ish type name: int, string, ref, or a struct pointer type name e.g. *internalHandler
}
type SEGo struct {
	E    ast.Expr
	Subs map[string]SE
}

func parseSE(text string) (SE, error) {
	text = strings.TrimSpace(text)
	if text == "" {
		return nil, fmt.Errorf("empty expression")
	}
	// quantifier prefix
	for _, q := range []string{"forall", "exists"} {
		if strings.HasPrefix(text, q+" ") {
			i := topLevelIndex(text, "::")
			if i < 0 {
				return nil, fmt.Errorf("quantifier without ::")
			}
			var vars []QVar
			for _, d := range strings.Split(text[len(q)+1:i], ",") {
				f := strings.Fields(d)
				if len(f) != 2 {
					return nil, fmt.Errorf("bad quantified variable %q", d)
				}
				vars = append(vars, QVar{f[0], f[1]})
			}
			rest := strings.TrimSpace(text[i+2:])
			var trig []SE
			var alts [][]SE
			for strings.HasPrefix(rest, "{") {
				depth, j := 0, 0
				for j = 0; j < len(rest); j++ {
					if rest[j] == '{' {
						depth++
					} else if rest[j] == '}' {
						depth--
						if depth == 0 {
							break
						}
					}
				}
				var group []SE
				for _, te := range splitTopLevel(rest[1:j], ',') {
					t, err := parseSE(te)
					if err != nil {
						return nil, err
					}
					group = append(group, t)
				}
				if trig == nil {
					trig = group
				} else {
					alts = append(alts, group)
				}
				rest = strings.TrimSpace(rest[j+1:])
			}
			body, err := parseSE(rest)
			if err != nil {
				return nil, err
			}
			return &SEQuant{Forall: q == "forall", Vars: vars, Body: body, Triggers: trig, AltTriggers: alts}, nil
		}
	}
	if i := topLevelIndex(text, "<==>"); i >= 0 {
		a, err := parseSE(text[:i])
		if err != nil {
			return nil, err
		}
		b, err := parseSE(text[i+4:])
		if err != nil {
			return nil, err
		}
		return &SEIff{a, b}, nil
	}
	if i := topLevelImp(text); i >= 0 {
		a, err := parseSE(text[:i])
		if err != nil {
			return nil, err
		}
		b, err := parseSE(text[i+3:])
		if err != nil {
			return nil, err
		}
		return &SEImp{a, b}, nil
	}
	// replace parenthesised groups containing special syntax by placeholders
	subs := map[string]SE{}
	var out strings.Builder
	i := 0
	for i < len(text) {
		c := text[i]
		if c == '"' {
			j := i + 1
			for j < len(text) && text[j] != '"' {
				if text[j] == '\\' {
					j++
				}
				j++
			}
			out.WriteString(text[i:min(j+1, len(text))])
			i = j + 1
			continue
		}
		if c == '(' {
			j := matchParen(text, i)
			if j < 0 {
				return nil, fmt.Errorf("unbalanced parentheses")
			}
			inner := text[i+1 : j]
			if needsSpecial(inner) && !isCallParen(text, i) {
				name := fmt.Sprintf("sub__%d", len(subs))
				s, err := parseSE(inner)
				if err != nil {
					return nil, err
				}
				subs[name] = s
				out.WriteString(name)
				i = j + 1
				continue
			}
			if needsSpecial(inner) && isCallParen(text, i) {
				// arguments of a call: split on top-level commas and recurse
				out.WriteByte('(')
				args := splitTopLevel(inner, ',')
				for k, a := range args {
					if k > 0 {
						out.WriteByte(',')
					}
					if needsSpecial(a) {
						name := fmt.Sprintf("sub__%d", len(subs))
						s, err := parseSE(a)
						if err != nil {
							return nil, err
						}
						subs[name] = s
						out.WriteString(name)
					} else {
						out.WriteString(a)
					}
				}
				out.WriteByte(')')
				i = j + 1
				continue
			}
		}
		out.WriteByte(c)
		i++
	}
	src := out.String()
	e, err := parser.ParseExpr(src)
	if err != nil {
		return nil, fmt.Errorf("parse %q: %v", src, err)
	}
	return &SEGo{E: e, Subs: subs}, nil
}

func needsSpecial(s string) bool {
	return strings.Contains(s, "==>") || strings.Contains(s, "forall ") || strings.Contains(s, "exists ")
}

func isCallParen(text string, i int) bool {
	j := i - 1
	for j >= 0 && text[j] == ' ' {
		j--
	}
	if j < 0 {
		return false
	}
	c := text[j]
	return c == '_' || c == ']' || (c >= 'a' && c <= 'z') || (c >= 'A' && c <= 'Z') || (c >= '0' && c <= '9')
}

func matchParen(s string, i int) int {
	depth := 0
	for j := i; j < len(s); j++ {
		switch s[j] {
		case '(':
			depth++
		case ')':
			depth--
			if depth == 0 {
				return j
			}
		case '"':
			j++
			for j < len(s) && s[j] != '"' {
				if s[j] == '\\' {
					j++
				}
				j++
			}
		}
	}
	return -1
}

func splitTopLevel(s string, sep byte) []string {
	var parts []string
	depth, start := 0, 0
	for i := 0; i < len(s); i++ {
		switch s[i] {
		case '(', '[', '{':
			depth++
		case ')', ']', '}':
			depth--
		case '"':
			i++
			for i < len(s) && s[i] != '"' {
				if s[i] == '\\' {
					i++
				}
				i++
			}
		default:
			if s[i] == sep && depth == 0 {
				parts = append(parts, s[start:i])
				start = i + 1
			}
		}
	}
	return append(parts, s[start:])
}

// topLevelIndex finds tok at parenthesis depth 0 (outside strings); -1 if none.
func topLevelIndex(s, tok string) int {
	depth := 0
	for i := 0; i < len(s); i++ {
		switch s[i] {
		case '(', '[':
			depth++
		case ')', ']':
			depth--
		case '"':
			i++
			for i < len(s) && s[i] != '"' {
				if s[i] == '\\' {
					i++
				}
				i++
			}
		default:
			if depth == 0 && strings.HasPrefix(s[i:], tok) {
				return i
			}
		}
	}
	return -1
}

// topLevelImp finds the first top-level "==>" that is not part of "<==>".
func topLevelImp(s string) int {
	off := 0
	for {
		i := topLevelIndex(s[off:], "==>")
		if i < 0 {
			return -1
		}
		i += off
		if i > 0 && s[i-1] == '<' {
			off = i + 3
			continue
		}
		return i
	}
}

// guardOf: the mutex guarding field S.f ("" if none).
func (db *SpecDB) guardOf(fq string) string {
	for _, g := range db.Guarded {
		if g.Struct+"."+g.Field == fq {
			return g.MuStruct + "." + g.Mu
		}
	}
	return ""
}
