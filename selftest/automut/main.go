// automut lists single-point mutations of the functions under contract:
//   automut FILE.go FUNCNAME...   (FUNCNAME as printed by `ebuverify list`, e.g. "(*EventBus).persistEvent", "PublishContext")
// Output: JSON lines {func, kind, start, end, repl, line}; offsets are byte offsets in the file.
package main

import (
	"encoding/json"
	"fmt"
	"go/ast"
	"go/parser"
	"go/token"
	"os"
	"strings"
)

type Mut struct {
	Func  string `json:"func"`
	Kind  string `json:"kind"`
	Start int    `json:"start"`
	End   int    `json:"end"`
	Repl  string `json:"repl"`
	Line  int    `json:"line"`
}

func funcName(fd *ast.FuncDecl) string {
	if fd.Recv == nil || len(fd.Recv.List) == 0 {
		return fd.Name.Name
	}
	t := fd.Recv.List[0].Type
	ptr := false
	if s, ok := t.(*ast.StarExpr); ok {
		ptr = true
		t = s.X
	}
	name := ""
	switch x := t.(type) {
	case *ast.Ident:
		name = x.Name
	case *ast.IndexExpr:
		if id, ok := x.X.(*ast.Ident); ok {
			if a, ok := x.Index.(*ast.Ident); ok {
				name = id.Name + "[" + a.Name + "]"
			}
		}
	}
	if ptr {
		return "(*" + name + ")." + fd.Name.Name
	}
	return "(" + name + ")." + fd.Name.Name
}

func main() {
	file := os.Args[1]
	want := map[string]bool{}
	for _, f := range os.Args[2:] {
		want[f] = true
	}
	src, err := os.ReadFile(file)
	if err != nil {
		panic(err)
	}
	fset := token.NewFileSet()
	f, err := parser.ParseFile(fset, file, src, 0)
	if err != nil {
		panic(err)
	}
	off := func(p token.Pos) int { return fset.Position(p).Offset }
	enc := json.NewEncoder(os.Stdout)
	for _, d := range f.Decls {
		fd, ok := d.(*ast.FuncDecl)
		if !ok || fd.Body == nil {
			continue
		}
		name := funcName(fd)
		if len(want) > 0 && !want[name] {
			continue
		}
		emit := func(kind string, s, e token.Pos, repl string) {
			enc.Encode(Mut{name, kind, off(s), off(e), repl, fset.Position(s).Line})
		}
		ast.Inspect(fd.Body, func(n ast.Node) bool {
			switch x := n.(type) {
			case *ast.IfStmt:
				c := string(src[off(x.Cond.Pos()):off(x.Cond.End())])
				emit("negate-if", x.Cond.Pos(), x.Cond.End(), "!("+c+")")
			case *ast.BinaryExpr:
				swap := map[token.Token]string{token.EQL: "!=", token.NEQ: "==", token.LSS: "<=", token.LEQ: "<", token.GTR: ">=", token.GEQ: ">", token.LAND: "||", token.LOR: "&&", token.ADD: "-", token.SUB: "+"}
				if r, ok := swap[x.Op]; ok {
					// skip string concatenation
					if x.Op == token.ADD {
						if bl, ok := x.Y.(*ast.BasicLit); ok && bl.Kind == token.STRING {
							return true
						}
						if bl, ok := x.X.(*ast.BasicLit); ok && bl.Kind == token.STRING {
							return true
						}
					}
					emit("binop "+x.Op.String()+"->"+r, x.OpPos, x.OpPos+token.Pos(len(x.Op.String())), r)
				}
			case *ast.ExprStmt:
				if _, ok := x.X.(*ast.CallExpr); ok {
					emit("drop-call", x.Pos(), x.End(), "{}")
				}
			case *ast.DeferStmt:
				emit("drop-defer", x.Pos(), x.End(), "{}")
				emit("undefer", x.Pos(), x.Pos()+token.Pos(len("defer")), "")
			case *ast.GoStmt:
				emit("ungo", x.Pos(), x.Pos()+token.Pos(len("go")), "")
			case *ast.AssignStmt:
				if x.Tok == token.ASSIGN && len(x.Lhs) == 1 {
					switch x.Lhs[0].(type) {
					case *ast.SelectorExpr, *ast.IndexExpr, *ast.StarExpr:
						emit("drop-store", x.Pos(), x.End(), "{}")
					}
				}
			case *ast.IncDecStmt:
				emit("drop-incdec", x.Pos(), x.End(), "{}")
			case *ast.BranchStmt:
				if x.Tok == token.CONTINUE {
					emit("continue->break", x.Pos(), x.End(), "break")
				} else if x.Tok == token.BREAK && x.Label == nil {
					emit("break->continue", x.Pos(), x.End(), "continue")
				}
			case *ast.ReturnStmt:
				for _, r := range x.Results {
					if id, ok := r.(*ast.Ident); ok && (id.Name == "true" || id.Name == "false") {
						nv := "true"
						if id.Name == "true" {
							nv = "false"
						}
						emit("flip-bool-return", id.Pos(), id.End(), nv)
					}
					if id, ok := r.(*ast.Ident); ok && id.Name == "nil" && len(x.Results) == 1 {
						_ = id
					}
				}
			case *ast.BasicLit:
				if x.Kind == token.INT && (x.Value == "0" || x.Value == "1") {
					nv := "1"
					if x.Value == "1" {
						nv = "0"
					}
					emit("int "+x.Value+"->"+nv, x.Pos(), x.End(), nv)
				}
			}
			return true
		})
	}
	_ = fmt.Sprint
	_ = strings.Join
}
