package main

// Package-wide syntactic scans: closed-world frame conditions that contracts
// rely on.  Each scan yields obligations decided by the engine itself.
//
//   immutable {props} S.f ...   every store to S.f is in a declared init-writer
//                               or targets an object allocated in the same
//                               function (constructor pattern)
//   atomic {props} S.f          S.f is only ever passed to
//                               atomic.CompareAndSwapUint32(&x.f, 0, 1)
//   guarded S.f by S.mu         every function touching S.f or calling
//                               Lock/Unlock must be under contract (C03)

import (
	"fmt"
	"go/constant"
	"go/types"
	"sort"
	"strings"

	"golang.org/x/tools/go/ssa"
)

func fieldOf(fa *ssa.FieldAddr) (string, string) {
	pt := fa.X.Type().Underlying().(*types.Pointer).Elem()
	st := pt.Underlying().(*types.Struct)
	return structName(pt), st.Field(fa.Field).Name()
}

func isLocalNew(v ssa.Value) bool { return isLocalNewD(v, 0) }

// isLocalNewD: v is (a field of) an object allocated in the same function,
// possibly read back from a local variable that only ever holds such objects
// (naive-form SSA keeps `x := &T{}` in a cell).
func isLocalNewD(v ssa.Value, d int) bool {
	if d > 4 {
		return false
	}
	switch x := v.(type) {
	case *ssa.Alloc:
		return true
	case *ssa.FieldAddr:
		return isLocalNewD(x.X, d+1)
	case *ssa.UnOp:
		cell, ok := x.X.(*ssa.Alloc)
		if !ok || cell.Referrers() == nil {
			return false
		}
		stores := 0
		for _, r := range *cell.Referrers() {
			switch y := r.(type) {
			case *ssa.Store:
				if y.Addr != cell || !isLocalNewD(y.Val, d+1) {
					return false
				}
				stores++
			case *ssa.UnOp, *ssa.DebugRef:
			default:
				return false // the variable's address escapes
			}
		}
		return stores > 0
	}
	return false
}

// sharedFieldRoot: the field (of an object not created in this function)
// through which the written location is reached, or nil.
func sharedFieldRoot(v ssa.Value, d int) *ssa.FieldAddr {
	if d > 8 {
		return nil
	}
	switch x := v.(type) {
	case *ssa.FieldAddr:
		if inner := sharedFieldRoot(x.X, d+1); inner != nil {
			return inner
		}
		if isLocalNew(x.X) {
			return nil
		}
		// a field of a plain local struct variable is not shared
		if al, ok := x.X.(*ssa.Alloc); ok && !al.Heap {
			return nil
		}
		return x
	case *ssa.IndexAddr:
		return sharedFieldRoot(x.X, d+1)
	case *ssa.UnOp:
		return sharedFieldRoot(x.X, d+1)
	case *ssa.Lookup:
		return sharedFieldRoot(x.X, d+1)
	case *ssa.Slice:
		return sharedFieldRoot(x.X, d+1)
	}
	return nil
}

func (e *Engine) allPackageFuncs() []*ssa.Function {
	var out []*ssa.Function
	for _, fn := range e.funcs {
		out = append(out, fn)
	}
	sort.Slice(out, func(i, j int) bool { return relName(out[i]) < relName(out[j]) })
	return out
}

func (e *Engine) pos(in ssa.Instruction) string {
	if in.Pos().IsValid() {
		return e.prog.Fset.Position(in.Pos()).String()
	}
	return relName(in.Parent())
}

// PackageScans returns the scan obligations of the loaded package.
func (e *Engine) PackageScans() *UnitResult {
	res := &UnitResult{Func: "package"}
	add := func(name string, props []string, ok bool, text string, where []string) {
		goal := True
		if !ok {
			goal = False
			text += " — offending: " + strings.Join(where, "; ")
		}
		pos := ""
		if len(where) > 0 {
			pos = where[0]
		}
		res.Obligs = append(res.Obligs, &Oblig{Name: "package#" + name, Props: props, Func: "package", Kind: "scan", Text: text, Goal: goal, Pos: pos})
	}
	funcs := e.allPackageFuncs()
	// immutable
	for _, fq := range sortedKeys(e.spec.Immutable) {
		var bad []string
		for _, fn := range funcs {
			if e.spec.InitWriters[relName(fn)] {
				continue
			}
			for _, b := range fn.Blocks {
				for _, in := range b.Instrs {
					st, ok := in.(*ssa.Store)
					if !ok {
						continue
					}
					fa, ok := st.Addr.(*ssa.FieldAddr)
					if !ok {
						continue
					}
					sn, f := fieldOf(fa)
					if sn+"."+f != fq {
						continue
					}
					if isLocalNew(fa.X) {
						continue
					}
					bad = append(bad, e.pos(in)+" in "+relName(fn))
				}
			}
		}
		add("immutable."+fq, e.spec.ImmutableProps[fq], len(bad) == 0, "field "+fq+" is written only by declared init-writers or on objects under construction", bad)
	}
	// atomic
	for _, fq := range sortedKeys(e.spec.Atomic) {
		var bad []string
		for _, fn := range funcs {
			for _, b := range fn.Blocks {
				for _, in := range b.Instrs {
					fa, ok := in.(*ssa.FieldAddr)
					if !ok {
						continue
					}
					sn, f := fieldOf(fa)
					if sn+"."+f != fq {
						continue
					}
					for _, ref := range *fa.Referrers() {
						okUse := false
						if c, ok := ref.(*ssa.Call); ok {
							if sf := c.Call.StaticCallee(); sf != nil && sf.String() == "sync/atomic.CompareAndSwapUint32" && len(c.Call.Args) == 3 && c.Call.Args[0] == fa {
								o, ok1 := constInt(c.Call.Args[1])
								n, ok2 := constInt(c.Call.Args[2])
								if ok1 && ok2 && o == 0 && n == 1 {
									okUse = true
								}
							}
						}
						if _, isDbg := ref.(*ssa.DebugRef); isDbg {
							okUse = true
						}
						if !okUse {
							bad = append(bad, e.pos(ref)+" in "+relName(fn))
						}
					}
				}
			}
		}
		add("atomic."+fq, e.spec.Atomic[fq], len(bad) == 0, "field "+fq+" is only accessed by atomic.CompareAndSwapUint32(&x, 0, 1): it only ever goes 0 -> 1 (M5)", bad)
	}
	// guarded / locks: closed world
	if len(e.spec.Guarded) > 0 {
		guarded := map[string]bool{}
		for _, g := range e.spec.Guarded {
			guarded[g.Struct+"."+g.Field] = true
		}
		var bad []string
		for _, fn := range funcs {
			root := fn
			for root.Parent() != nil {
				root = root.Parent()
			}
			if fs := e.spec.Funcs[relName(fn)]; fs != nil && !fs.Trusted {
				continue
			}
			// literals are covered when the enclosing function is under contract
			// and inlines them; escaping literals need their own block
			touches := ""
			for _, b := range fn.Blocks {
				for _, in := range b.Instrs {
					switch x := in.(type) {
					case *ssa.FieldAddr:
						sn, f := fieldOf(x)
						if guarded[sn+"."+f] && !isLocalNew(x.X) {
							touches = sn + "." + f + " at " + e.pos(in)
						}
					case *ssa.Call:
						if sf := x.Call.StaticCallee(); sf != nil {
							switch sf.String() {
							case "(*sync.RWMutex).Lock", "(*sync.RWMutex).RLock", "(*sync.Mutex).Lock", "(*sync.RWMutex).Unlock", "(*sync.RWMutex).RUnlock", "(*sync.Mutex).Unlock":
								touches = "lock operation at " + e.pos(in)
							}
						}
					case *ssa.Defer:
						if sf := x.Call.StaticCallee(); sf != nil && strings.Contains(sf.String(), "sync.") && strings.Contains(sf.String(), "nlock") {
							touches = "deferred unlock at " + e.pos(in)
						}
					}
				}
			}
			if touches != "" {
				if fn.Parent() != nil {
					if pfs := e.spec.Funcs[relName(root)]; pfs != nil && !pfs.Trusted && e.inlinedLiteral(fn) {
						continue
					}
				}
				bad = append(bad, relName(fn)+" ("+touches+")")
			}
		}
		add("lockset.closedworld", []string{"C03"}, len(bad) == 0, "every function that touches lock-guarded state or a mutex is under contract (lockset discipline is checked on all of them)", bad)
	}
	// every write to shared memory targets a classified field: a field that is
	// written after construction (outside init-writers, on an object not
	// created in the same function) must be lock-guarded, atomic or declared
	// setter-only (configuration setters are excluded by the statement of C03)
	if len(e.spec.Guarded) > 0 || len(e.spec.Immutable) > 0 {
		guarded := map[string]bool{}
		for _, g := range e.spec.Guarded {
			guarded[g.Struct+"."+g.Field] = true
		}
		var bad []string
		seenBad := map[string]bool{}
		for _, fn := range funcs {
			if e.spec.InitWriters[relName(fn)] {
				continue
			}
			for _, b := range fn.Blocks {
				for _, in := range b.Instrs {
					var target ssa.Value
					switch x := in.(type) {
					case *ssa.Store:
						target = x.Addr
					case *ssa.MapUpdate:
						target = x.Map
					default:
						continue
					}
					fa := sharedFieldRoot(target, 0)
					if fa == nil {
						continue
					}
					sn, f := fieldOf(fa)
					fq := sn + "." + f
					if guarded[fq] || e.spec.Atomic[fq] != nil || e.spec.SetterOnly[fq] {
						continue
					}
					if e.spec.Immutable[fq] {
						continue // reported by the immutable scan
					}
					if !seenBad[fq] {
						seenBad[fq] = true
						bad = append(bad, fq+" written at "+e.pos(in)+" in "+relName(fn))
					}
				}
			}
		}
		add("writes.classified", []string{"C03"}, len(bad) == 0, "every field written after construction is lock-guarded, atomic or a declared configuration setter field", bad)
	}
	// closure facts: a literal whose contract states `fact`s about its captured
	// variables relies on those variables not being reassigned once the literal
	// exists: every captured variable is written at most once outside the
	// literal (its initialisation) and never inside it
	{
		var bad []string
		any := false
		for _, fn := range funcs {
			fs := e.spec.Funcs[relName(fn)]
			if fs == nil || len(fs.Facts) == 0 || fn.Parent() == nil {
				continue
			}
			any = true
			for _, b := range fn.Parent().Blocks {
				for _, in := range b.Instrs {
					mc, ok := in.(*ssa.MakeClosure)
					if !ok || mc.Fn != fn {
						continue
					}
					for i, bind := range mc.Bindings {
						al, ok := bind.(*ssa.Alloc)
						if !ok {
							continue // a captured variable of an outer literal: checked there
						}
						stores := 0
						for _, r := range *al.Referrers() {
							if st, ok := r.(*ssa.Store); ok && st.Addr == al {
								stores++
							}
						}
						inner := 0
						if i < len(fn.FreeVars) {
							for _, r := range *fn.FreeVars[i].Referrers() {
								if st, ok := r.(*ssa.Store); ok && st.Addr == fn.FreeVars[i] {
									inner++
								}
							}
						}
						if stores > 1 || inner > 0 {
							bad = append(bad, fmt.Sprintf("%s captured by %s is assigned %d time(s) in %s and %d time(s) in the literal", al.Comment, relName(fn), stores, relName(fn.Parent()), inner))
						}
					}
				}
			}
		}
		if any {
			add("closure.captures.stable", []string{"C09"}, len(bad) == 0, "variables captured by literals whose contracts state facts about them are assigned once, before the literal is created", bad)
		}
	}
	// options: every literal of type func(*EventBus) created by a With* function
	// must be under contract (closed world for the Option callback contract)
	if len(e.spec.Callbacks) > 0 && e.spec.Callbacks["Option"] != nil {
		var bad []string
		for _, fn := range funcs {
			if fn.Parent() == nil || !strings.HasPrefix(relName(fn), "With") || strings.Count(relName(fn), "$") != 1 {
				continue
			}
			if fn.Signature.Params().Len() != 1 || !strings.HasSuffix(fn.Signature.Params().At(0).Type().String(), ".EventBus") {
				continue
			}
			if fs := e.spec.Funcs[relName(fn)]; fs == nil || fs.Trusted {
				bad = append(bad, relName(fn))
			}
		}
		add("option.closedworld", []string{"C09", "C01"}, len(bad) == 0, "every Option literal of the package is verified against the Option callback contract", bad)
	}
	_ = constant.MakeBool
	_ = fmt.Sprint
	return res
}

// inlinedLiteral: a function literal that is only ever called/deferred
// directly in its parent (so the parent's verification executes it inline).
func (e *Engine) inlinedLiteral(fn *ssa.Function) bool {
	parent := fn.Parent()
	if parent == nil {
		return false
	}
	for _, b := range parent.Blocks {
		for _, in := range b.Instrs {
			mc, ok := in.(*ssa.MakeClosure)
			if !ok || mc.Fn != fn {
				continue
			}
			for _, ref := range *mc.Referrers() {
				switch r := ref.(type) {
				case *ssa.Defer:
					if r.Call.Value != mc {
						return false
					}
				case *ssa.Call:
					if r.Call.Value != mc {
						return false
					}
				case *ssa.DebugRef:
				default:
					return false
				}
			}
		}
	}
	return true
}
