package main

// Mapping of Go types to SMT sorts, type identifiers and zero values.

import (
	"fmt"
	"go/types"
	"strings"
)

// opaqueNamed lists named types that are modelled as opaque scalars (sort Int).
var opaqueNamed = map[string]bool{
	"time.Time": true, "time.Duration": true, "reflect.Type": true, "reflect.Value": true,
	"sync.Mutex": true, "sync.RWMutex": true, "sync.WaitGroup": true, "reflect.Kind": true,
	"time.Month": true, "time.Location": true,
}

// curPkgPath is the package under verification: its types print unqualified.
var curPkgPath string

func typeKey(t types.Type) string {
	return types.TypeString(t, func(p *types.Package) string {
		if p == nil || p.Path() == curPkgPath {
			return ""
		}
		return p.Name()
	})
}

func smtName(s string) string {
	var b strings.Builder
	for _, c := range s {
		switch {
		case c >= 'a' && c <= 'z', c >= 'A' && c <= 'Z', c >= '0' && c <= '9', c == '_', c == '.':
			b.WriteRune(c)
		case c == '*':
			b.WriteString("P.")
		case c == '[' || c == ']':
			b.WriteString("!")
		default:
			b.WriteByte('_')
		}
	}
	return b.String()
}

func isByteSlice(t types.Type) bool {
	if s, ok := t.Underlying().(*types.Slice); ok {
		if b, ok := s.Elem().Underlying().(*types.Basic); ok && (b.Kind() == types.Byte || b.Kind() == types.Uint8) {
			return true
		}
	}
	return false
}

// sortOf maps a Go type to its SMT sort, declaring datatypes on demand.
func (u *Unit) sortOf(t types.Type) Sort {
	if t == nil {
		return SInt
	}
	if n, ok := t.(*types.Named); ok {
		if opaqueNamed[typeKey(n)] {
			return SInt
		}
	}
	if a, ok := t.(*types.Alias); ok {
		return u.sortOf(types.Unalias(a))
	}
	switch ut := t.Underlying().(type) {
	case *types.Basic:
		switch {
		case ut.Info()&types.IsBoolean != 0:
			return SBool
		case ut.Info()&types.IsString != 0:
			return SStr
		case ut.Kind() == types.UnsafePointer:
			return SInt
		case ut.Kind() == types.UntypedNil:
			return SInt
		default:
			return SInt // integers; floats are opaque
		}
	case *types.Pointer, *types.Signature, *types.Chan, *types.Map:
		return SInt
	case *types.Slice:
		if isByteSlice(t) {
			return SStr
		}
		return SSlice
	case *types.Interface:
		if _, ok := t.(*types.TypeParam); ok {
			return SInt
		}
		return SIface
	case *types.Array:
		return ArrSort(SInt, u.sortOf(ut.Elem()))
	case *types.Struct:
		return u.structSort(t, ut)
	case *types.Tuple:
		return "Tuple"
	}
	if _, ok := t.(*types.TypeParam); ok {
		return SInt
	}
	return SInt
}

func structName(t types.Type) string {
	if n, ok := t.(*types.Named); ok {
		// generic types: one name for all instantiations (type arguments do
		// not change the field layout)
		obj := n.Origin().Obj()
		if obj.Pkg() != nil && obj.Pkg().Path() != curPkgPath {
			return smtName(obj.Pkg().Name() + "." + obj.Name())
		}
		return smtName(obj.Name())
	}
	return smtName(typeKey(t))
}

// structSort declares (once) a datatype for a struct used as a value.
func (u *Unit) structSort(t types.Type, st *types.Struct) Sort {
	name := "S_" + structName(t)
	if len(name) > 80 {
		name = fmt.Sprintf("S_anon%d", u.anonID(typeKey(t)))
	}
	if !u.decls.Has("sort:" + name) {
		// declare field sorts first (recursion)
		var fs []string
		for i := 0; i < st.NumFields(); i++ {
			f := st.Field(i)
			fs = append(fs, fmt.Sprintf("(%s_%s %s)", name, f.Name(), u.sortOf(f.Type())))
		}
		if st.NumFields() == 0 {
			fs = append(fs, fmt.Sprintf("(%s__unit Int)", name))
		}
		u.decls.Add("sort:"+name, fmt.Sprintf("(declare-datatypes ((%s 0)) (((mk_%s %s))))", name, name, strings.Join(fs, " ")))
	}
	return Sort(name)
}

func (u *Unit) anonID(k string) int {
	if id, ok := u.eng.anon[k]; ok {
		return id
	}
	id := len(u.eng.anon) + 1
	u.eng.anon[k] = id
	return id
}

// zero returns the zero value term of a Go type.
func (u *Unit) zero(t types.Type) T {
	s := u.sortOf(t)
	return u.zeroOfSort(s, t)
}

func (u *Unit) zeroOfSort(s Sort, t types.Type) T {
	switch s {
	case SInt:
		if tp, ok := t.(*types.TypeParam); ok {
			return app(SInt, "zeroOf", u.typeID(tp))
		}
		return IntLit(0)
	case SBool:
		return False
	case SStr:
		return StrLit("")
	case SIface:
		return T{"nil_iface", SIface}
	case SSlice:
		return T{"nil_slice", SSlice}
	}
	if strings.HasPrefix(string(s), "(Array ") {
		_, v := arrParts(s)
		var et types.Type
		if t != nil {
			if a, ok := t.Underlying().(*types.Array); ok {
				et = a.Elem()
			}
		}
		return T{fmt.Sprintf("((as const %s) %s)", s, u.zeroOfSort(v, et).S), s}
	}
	if st, ok := t.Underlying().(*types.Struct); ok {
		var args []T
		for i := 0; i < st.NumFields(); i++ {
			args = append(args, u.zero(st.Field(i).Type()))
		}
		if st.NumFields() == 0 {
			args = append(args, IntLit(0))
		}
		return app(s, "mk_"+string(s), args...)
	}
	panic("zero: unsupported sort " + string(s))
}

// structField: select field i from a struct value term.
func (u *Unit) structGet(v T, t types.Type, i int) T {
	st := t.Underlying().(*types.Struct)
	s := u.sortOf(t)
	return app(u.sortOf(st.Field(i).Type()), string(s)+"_"+st.Field(i).Name(), v)
}

func (u *Unit) structSet(v T, t types.Type, i int, nv T) T {
	st := t.Underlying().(*types.Struct)
	s := u.sortOf(t)
	var args []T
	for j := 0; j < st.NumFields(); j++ {
		if j == i {
			args = append(args, nv)
		} else {
			args = append(args, u.structGet(v, t, j))
		}
	}
	return app(s, "mk_"+string(s), args...)
}

// typeID returns the Int term identifying a Go type at run time.
//   - type parameters are free constants (any type),
//   - *X is (ptrTo id(X)),
//   - every other type is a distinct constant keyed by its printed form; types
//     whose printed form mentions a type parameter are constants too (assumption
//     A-TYPES: distinct type expressions denote distinct types, i.e. type
//     arguments are not themselves interface types identical to `any`).
func (u *Unit) typeID(t types.Type) T {
	t = types.Unalias(t)
	if tp, ok := t.(*types.TypeParam); ok {
		name := "tp!" + tp.Obj().Name()
		u.decls.Add(name, fmt.Sprintf("(declare-const %s Int)\n(assert (not (= %s 0)))\n(assert (not (isIfaceType %s)))", name, name, name))
		return T{name, SInt}
	}
	if p, ok := t.(*types.Pointer); ok {
		return app(SInt, "ptrTo", u.typeID(p.Elem()))
	}
	// generic named type applied to arguments: constructor function
	if n, ok := t.(*types.Named); ok && n.TypeArgs().Len() > 0 {
		var args []T
		for i := 0; i < n.TypeArgs().Len(); i++ {
			args = append(args, u.typeID(n.TypeArgs().At(i)))
		}
		return u.typeCon("tyc!"+smtName(typeKey(n.Origin().Obj().Type())), args)
	}
	// composite type mentioning type parameters: constructor over them
	if tps := typeParamsIn(t); len(tps) > 0 {
		var args []T
		for _, tp := range tps {
			args = append(args, u.typeID(tp))
		}
		return u.typeCon("tyf!"+smtName(typeKey(t)), args)
	}
	k := typeKey(t)
	name := "ty!" + smtName(k)
	if !u.decls.Has(name) {
		id := u.eng.typeConstID(k)
		u.decls.Add(name, fmt.Sprintf("(define-fun %s () Int %d)\n(assert (= (tykind %s) %d))", name, id, name, id))
		if _, isIface := t.Underlying().(*types.Interface); isIface {
			u.decls.Add(name+"!iface", fmt.Sprintf("(assert (isIfaceType %s))", name))
		}
	}
	return T{name, SInt}
}

// typeCon applies a type-constructor function; different constructors have
// different kinds (hence different results), constructor results are non-zero.
func (u *Unit) typeCon(fn string, args []T) T {
	if !u.decls.Has(fn) {
		k := u.eng.typeConstID(fn)
		var ps, as, qs []string
		for i := range args {
			ps = append(ps, "Int")
			as = append(as, fmt.Sprintf("a%d", i))
			qs = append(qs, fmt.Sprintf("(a%d Int)", i))
		}
		call := "(" + fn + " " + strings.Join(as, " ") + ")"
		u.decls.Add(fn, fmt.Sprintf("(declare-fun %s (%s) Int)\n(assert (forall (%s) (! (and (= (tykind %s) %d) (not (= %s 0))) :pattern (%s))))",
			fn, strings.Join(ps, " "), strings.Join(qs, " "), call, k, call, call))
		u.eng.typeConKind[fn] = k
	}
	r := app(SInt, fn, args...)
	// ground instance of the kind axiom (keeps the quantifier-free oracle sharp)
	if !strings.Contains(r.S, "q!") {
		u.decls.Add("kind:"+r.S, fmt.Sprintf("(assert (and (= (tykind %s) %d) (not (= %s 0))))", r.S, u.eng.typeConKind[fn], r.S))
	}
	return r
}

func typeParamsIn(t types.Type) []*types.TypeParam {
	var out []*types.TypeParam
	seen := map[*types.TypeParam]bool{}
	var walk func(t types.Type, depth int)
	walk = func(t types.Type, depth int) {
		if depth > 6 || t == nil {
			return
		}
		switch x := types.Unalias(t).(type) {
		case *types.TypeParam:
			if !seen[x] {
				seen[x] = true
				out = append(out, x)
			}
		case *types.Pointer:
			walk(x.Elem(), depth+1)
		case *types.Slice:
			walk(x.Elem(), depth+1)
		case *types.Array:
			walk(x.Elem(), depth+1)
		case *types.Map:
			walk(x.Key(), depth+1)
			walk(x.Elem(), depth+1)
		case *types.Chan:
			walk(x.Elem(), depth+1)
		case *types.Signature:
			for i := 0; i < x.Params().Len(); i++ {
				walk(x.Params().At(i).Type(), depth+1)
			}
			for i := 0; i < x.Results().Len(); i++ {
				walk(x.Results().At(i).Type(), depth+1)
			}
		case *types.Named:
			for i := 0; i < x.TypeArgs().Len(); i++ {
				walk(x.TypeArgs().At(i), depth+1)
			}
		}
	}
	walk(t, 0)
	return out
}

func (e *Engine) typeConstID(k string) int {
	if id, ok := e.typeConst[k]; ok {
		return id
	}
	id := 1000 + len(e.typeConst)
	e.typeConst[k] = id
	return id
}

// prelude declarations shared by all queries.
const preludeSMT = `(declare-datatypes ((Iface 0)) (((mk_iface (ity Int) (ival Int)))))
(define-fun nil_iface () Iface (mk_iface 0 0))
(define-fun ifaceEq ((a Iface) (b Iface)) Bool (and (= (ity a) (ity b)) (or (= (ity a) 0) (= (ival a) (ival b)))))
(declare-datatypes ((Slice 0)) (((mk_slice (sarr Int) (soff Int) (slen Int) (scap Int)))))
(define-fun nil_slice () Slice (mk_slice 0 0 0 0))
(define-fun wfSlice ((s Slice)) Bool (and (<= 0 (soff s)) (<= 0 (slen s)) (<= (slen s) (scap s)) (<= (+ (soff s) (scap s)) 4611686018427387904) (=> (= (sarr s) 0) (= (scap s) 0))))
(declare-fun ptrTo (Int) Int)
(declare-fun elemOf (Int) Int)
(assert (forall ((t Int)) (! (= (elemOf (ptrTo t)) t) :pattern ((ptrTo t)))))
(assert (forall ((t Int)) (! (< (ptrTo t) 0) :pattern ((ptrTo t)))))
(declare-fun isIfaceType (Int) Bool)
(declare-fun tykind (Int) Int)
(assert (forall ((t Int)) (! (= (tykind (ptrTo t)) 1) :pattern ((ptrTo t)))))
(declare-fun zeroOf (Int) Int)
(declare-fun boxStr (String) Int)
(declare-fun unboxStr (Int) String)
(assert (forall ((s String)) (! (= (unboxStr (boxStr s)) s) :pattern ((boxStr s)))))
(declare-fun boxBool (Bool) Int)
(declare-fun boxSlice (Slice) Int)
(declare-fun boxIface (Iface) Int)
`
