package main

// Calls: builtins, library stubs (assumed contracts), contract calls,
// callbacks, go/defer/select, locks and tokens.

import (
	"strconv"
	"fmt"
	"go/constant"
	"go/types"
	"sort"
	"strings"

	"golang.org/x/tools/go/ssa"
)

type callRes struct {
	st       *State
	val      Value
	panicked bool
}

func one(st *State, v Value) []callRes { return []callRes{{st: st, val: v}} }

func (u *Unit) calleeValue(st *State, cc *ssa.CallCommon) Value { return u.get(st, cc.Value) }

func (u *Unit) doCall(st *State, instr ssa.Instruction, cc *ssa.CallCommon, mode string) []callRes {
	callee := u.calleeValue(st, cc)
	var args []Value
	for _, a := range cc.Args {
		args = append(args, u.get(st, a))
	}
	return u.invoke(st, instr, cc, callee, args, mode)
}

// relName gives the spec name of a function: RelString relative to its package,
// using the generic origin for instantiations.
func relName(fn *ssa.Function) string {
	if o := fn.Origin(); o != nil {
		fn = o
	}
	if fn.Pkg != nil {
		return fn.RelString(fn.Pkg.Pkg)
	}
	if fn.Parent() != nil && fn.Parent().Pkg != nil {
		return fn.RelString(fn.Parent().Pkg.Pkg)
	}
	return fn.String()
}

func (u *Unit) typeName(t types.Type) string {
	return types.TypeString(t, func(p *types.Package) string {
		if p == nil || (u.pkg != nil && p == u.pkg.Pkg) {
			return ""
		}
		return p.Name()
	})
}

func (u *Unit) invoke(st *State, instr ssa.Instruction, cc *ssa.CallCommon, callee Value, args []Value, mode string) []callRes {
	sig := cc.Signature()
	u.curInstr = instr
	u.curArgTypes = nil
	if cc.IsInvoke() {
		u.curArgTypes = append(u.curArgTypes, cc.Value.Type())
	} else if _, isT := callee.(T); isT {
		u.curArgTypes = append(u.curArgTypes, cc.Value.Type())
	}
	for _, a := range cc.Args {
		u.curArgTypes = append(u.curArgTypes, a.Type())
	}
	defer func() { u.curInstr = nil }()
	if cc.IsInvoke() {
		name := u.typeName(cc.Value.Type()) + "." + cc.Method.Name()
		recv := u.lower(st, callee, cc.Value.Type())
		if recv.Sort == SIface {
			u.addOblig(st, "nopanic.nilinvoke", "", nil, Neq(app(SInt, "ity", recv), IntLit(0)), instr, "implicit: method call on non-nil interface ("+name+")")
		} else {
			u.addOblig(st, "nopanic.nilinvoke", "", nil, Neq(recv, IntLit(0)), instr, "implicit: method call on non-nil interface ("+name+")")
		}
		u.checkAtStub(st, instr, name)
		if r, ok := u.stubMethod(st, instr, name, recv, args, sig); ok {
			return u.recordRes(u.event(st, name, append([]Value{recv}, args...)), r)
		}
		fs := u.eng.spec.Methods[name]
		if fs == nil {
			return u.unknownCall(st, instr, name, sig)
		}
		u.checkAt(st, instr, "call:"+aliasOr(fs, name))
		evs := u.event(st, aliasOr(fs, name), append([]Value{recv}, args...))
		return u.recordRes(evs, u.contractCall(st, instr, fs, name, append([]Value{recv}, args...), sig, true))
	}
	switch c := callee.(type) {
	case *ssa.Builtin:
		return u.builtin(st, instr, c, cc, args)
	case *Closure:
		u.event(st, relName(c.fn), args)
		rs := u.inline(st, c.fn, args, c.binds)
		return rs
	case *FuncVal:
		fn := c.fn
		name := relName(fn)
		full := fn.String()
		if o := fn.Origin(); o != nil {
			full = o.String()
		}
		u.checkAtStub(st, instr, name)
		if r, ok := u.stubFunc(st, instr, full, args, sig, cc); ok {
			return u.recordRes(u.event(st, name, args), r)
		}
		if fn.Parent() != nil && fn.Pkg == nil || (fn.Parent() != nil && strings.Contains(fn.Name(), "$")) {
			// function literal without captures
			u.event(st, name, args)
			return u.inline(st, fn, args, nil)
		}
		fs := u.eng.spec.Funcs[name]
		if fn.Pkg != nil && fn.Pkg != u.pkg {
			fs = u.eng.spec.Funcs[fn.Pkg.Pkg.Name()+"."+name]
		}
		if fs == nil {
			// a helper of this package without a contract of its own is verified
			// as part of its caller (inlined), unless it is recursive
			target := fn
			if o := fn.Origin(); o != nil {
				target = o
			}
			if target.Pkg == u.pkg && len(target.Blocks) > 0 && !onStack(st.frame, target) && st.frame.depth < 6 {
				u.checkAt(st, instr, "call:"+name)
				u.event(st, name, args)
				u.autoInlined[name] = true
				return u.inline(st, target, args, nil)
			}
			return u.unknownCall(st, instr, name, sig)
		}
		u.checkAt(st, instr, "call:"+name)
		evs := u.event(st, name, args)
		if fs.Inline {
			target := fn
			if o := fn.Origin(); o != nil {
				target = o
			}
			return u.inline(st, target, args, nil)
		}
		return u.recordRes(evs, u.contractCall(st, instr, fs, name, args, sig, false))
	case T:
		// dynamic call of a function value: callback contract by static type
		name := u.typeName(cc.Value.Type())
		u.addOblig(st, "nopanic.nilcall", "", nil, Neq(c, IntLit(0)), instr, "implicit: call of non-nil function value ("+name+")")
		fs := u.eng.spec.Callbacks[name]
		if fs == nil {
			return u.unknownCall(st, instr, "callback "+name, sig)
		}
		u.checkAt(st, instr, "call:"+aliasOr(fs, name))
		evs := u.event(st, aliasOr(fs, name), append([]Value{c}, args...))
		return u.recordRes(evs, u.contractCall(st, instr, fs, name, append([]Value{c}, args...), sig, true))
	}
	u.unsupportedf("call of %T", callee)
	return u.unknownCall(st, instr, "?", sig)
}

func onStack(f *Frame, fn *ssa.Function) bool {
	for ; f != nil; f = f.parent {
		if f.fn == fn {
			return true
		}
	}
	return false
}

func (u *Unit) inline(st *State, fn *ssa.Function, args []Value, binds []Value) []callRes {
	outs := u.execFunc(st, fn, args, binds)
	var rs []callRes
	for _, o := range outs {
		var v Value
		switch len(o.results) {
		case 0:
		case 1:
			v = o.results[0]
		default:
			v = Tuple(o.results)
		}
		rs = append(rs, callRes{st: o.st, val: v, panicked: o.panicked})
	}
	return rs
}

func (u *Unit) resultValue(st *State, sig *types.Signature, prefix string) (Value, []T) {
	rs := sig.Results()
	var vals []T
	for i := 0; i < rs.Len(); i++ {
		v := u.freshOfType(st, prefix, rs.At(i).Type())
		if isRefType(rs.At(i).Type()) {
			u.assumeAllocated(st, v)
		}
		vals = append(vals, v)
	}
	switch len(vals) {
	case 0:
		return nil, vals
	case 1:
		return vals[0], vals
	}
	tp := make(Tuple, len(vals))
	for i, v := range vals {
		tp[i] = v
	}
	return tp, vals
}

func (u *Unit) unknownCall(st *State, instr ssa.Instruction, name string, sig *types.Signature) []callRes {
	u.unsupportedf("call of %s: no contract (treated as havoc-everything, may panic)", name)
	u.havocAll(st, "unknown call "+name)
	v, _ := u.resultValue(st, sig, "unk")
	return one(st, v)
}

// ------------------------------------------------------------- contracts

func (u *Unit) contractCall(st *State, instr ssa.Instruction, fs *FuncSpec, name string, args []Value, sig *types.Signature, dynamic bool) []callRes {
	subst := u.typeSubstOf(instr)
	site := fmt.Sprintf("call.%s#%d", name, u.siteOrdinal(instr))
	env := u.newEnv(st)
	env.names = map[string]SV{}
	env.typeSubst = subst
	// parameter names: from the block header for callbacks/methods, from the
	// callee's ssa params for functions.
	pnames := fs.Params
	var ptypes []types.Type
	if fs.Kind == "func" && len(fs.Params) > 0 {
		// trusted contract of a foreign function: parameter names from the header,
		// types from the signature (receiver first)
		if sig.Recv() != nil {
			ptypes = append(ptypes, sig.Recv().Type())
		}
		for i := 0; i < sig.Params().Len(); i++ {
			ptypes = append(ptypes, sig.Params().At(i).Type())
		}
	} else if fs.Kind == "func" {
		if fn := u.eng.funcByName(u.pkg, fs.Name); fn != nil {
			pnames = nil
			for _, p := range fn.Params {
				pnames = append(pnames, p.Name())
				ptypes = append(ptypes, p.Type())
			}
		}
	}
	for i, a := range args {
		if i < len(pnames) {
			var pt types.Type
			if i < len(ptypes) {
				pt = ptypes[i]
			} else if dynamic && i > 0 && i-1 < sig.Params().Len() {
				pt = sig.Params().At(i - 1).Type()
			}
			env.names[pnames[i]] = SV{V: a, Typ: pt}
		}
	}
	if fs.Kind == "func" && len(fs.Params) == 0 {
		if cfn := u.eng.funcByName(u.pkg, fs.Name); cfn != nil {
			for oldN, newN := range u.aliasesOf(cfn) {
				if sv, ok := env.names[newN]; ok {
					if _, taken := env.names[oldN]; !taken {
						env.names[oldN] = sv
					}
				}
			}
		}
	}
	for _, c := range fs.Requires {
		if sv, ok := u.exclusiveExpr(env, c); ok {
			ref := u.lower(st, sv.V, sv.Typ)
			goal := False
			for _, p := range st.private {
				if p.ref.S == ref.S {
					goal = True
				}
			}
			u.addOblig(st, site+".pre.exclusive", c.Text, clauseProps(c, fs), goal, instr, "callee "+name+" requires exclusive access to "+c.Text+": the location must be private to the caller")
			continue
		}
		if lname, base, mode, ok := u.lockedExpr(env, c); ok {
			u.addOblig(st, site+".pre.locked."+lname, c.Text, u.propsFor("C03"), u.heldGoal(st, lname, base, mode == 2), instr, "callee "+name+" requires the caller to hold "+lname)
			continue
		}
		g := u.evalBool(env, c.Expr)
		u.addOblig(st, site+".pre."+labelOr(c, "requires"), c.Text, clauseProps(c, fs), g, instr, "precondition of "+name+": "+c.Text)
		st.assume(g)
	}
	if fs == u.fs && st.frame != nil && st.frame.depth == 0 {
		// self-recursive call: the variant decreases and is bounded below
		for i, c := range fs.Decreases {
			if i >= len(u.entryVariant) {
				break
			}
			callee := u.evalTerm(env, c.Expr)
			g := And(Le(IntLit(0), u.entryVariant[i]), Lt(callee, u.entryVariant[i]))
			u.addOblig(st, site+".variant", c.Text, clauseProps(c, fs), g, instr, "termination of the recursion: the variant "+c.Text+" is non-negative at entry and smaller at this recursive call")
		}
	}
	if fs.Unlocked {
		u.checkUnlocked(st, instr, site, name)
	}
	if fs.Effect == "iterate" {
		return u.iterateCall(st, instr, fs, name, args, sig)
	}
	pre := st.snapshot()
	// objects private to this activation that are handed to a callee which may write memory are
	// no longer private: the callee's writes reach them (no private-object frame across the call)
	if fs.Effect != "pure" && fs.Effect != "opaque" && !strings.HasPrefix(fs.Effect, "fields ") {
		for _, a := range args {
			switch av := a.(type) {
			case T:
				st.escape(av)
			case *Ptr:
				if av.kind == pCell && av.cell != nil {
					// address of a local: the callee may write the local through it (handled by the cell model)
					continue
				}
				if av.base.S != "" {
					st.escape(av.base)
				}
			}
		}
	}
	switch fs.Effect {
	case "pure", "opaque":
	case "reentrant":
		u.havocAll(st, name)
	case "", "inherit":
		if fs.Kind == "func" {
			u.havocModset(st, fs.Name)
		} else {
			u.havocAll(st, name)
		}
	default:
		if strings.HasPrefix(fs.Effect, "fields ") {
			u.havocFields(st, fs, env)
			break
		}
		u.unsupportedf("unknown effect %q in contract of %s", fs.Effect, name)
		u.havocAll(st, name)
	}
	for _, mclause := range fs.Modifies {
		u.havocGhostEntry(st, env, mclause)
	}
	var outs []callRes
	if fs.MayPanic {
		ps := st.clone()
		penv := u.newEnv(ps)
		penv.names = env.names
		penv.old = pre
		for _, c := range fs.OnPanic {
			ps.assume(u.evalBool(penv, c.Expr))
		}
		outs = append(outs, callRes{st: ps, panicked: true})
	}
	v, vals := u.resultValue(st, sig, "res."+name)
	env2 := u.newEnv(st)
	env2.names = map[string]SV{}
	for k, x := range env.names {
		env2.names[k] = x
	}
	env2.old = pre
	env2.typeSubst = subst
	env2.acq = pre // acq() in a callee's postcondition: its critical section lies within the call
	env2.calleeGhost = map[string]T{}
	st.lastCalleeGhost = env2.calleeGhost
	if fs.Kind == "func" {
		env2.calleeFn = u.eng.funcByName(u.pkg, fs.Name)
	}
	rs := sig.Results()
	for i, rv := range vals {
		if len(vals) == 1 {
			env2.names["result"] = SV{V: rv, Typ: rs.At(i).Type()}
		}
		env2.names[fmt.Sprintf("result%d", i)] = SV{V: rv, Typ: rs.At(i).Type()}
		if n := rs.At(i).Name(); n != "" && n != "_" {
			env2.names[n] = SV{V: rv, Typ: rs.At(i).Type()}
		}
		if types.Identical(rs.At(i).Type(), types.Universe.Lookup("error").Type()) {
			if _, taken := env2.names["err"]; !taken {
				env2.names["err"] = SV{V: rv, Typ: rs.At(i).Type()}
			}
		}
	}
	for _, c := range fs.Ensures {
		if sv, ok := u.ownedExpr(env2, c); ok {
			// the callee hands over ownership of the slice's backing array
			if st2, isSl := sv.Typ.Underlying().(*types.Slice); isSl {
				sl := u.lower(st, sv.V, sv.Typ)
				arr := app(SInt, "sarr", sl)
				if strings.HasPrefix(arr.S, "(") {
					c := u.fresh("owned", SInt)
					st.assume(Eq(c, arr))
					arr = c
				}
				{
					for _, p := range st.private {
						st.assume(Neq(arr, p.ref))
					}
					st.private = append(st.private, privRef{arr, "arr:" + string(u.sortOf(st2.Elem())), ""})
					u.note("ownership: the slice returned by " + name + " is not retained or aliased by the callee")
				}
			}
			continue
		}
		st.assume(u.evalBool(env2, c.Expr))
	}
	if fs.Trusted || fs.Kind != "func" {
		u.note("assumed contract: " + fs.Kind + " " + name)
	}
	u.addCover(st, site+".return", "", "the state after the call of "+name+" (its contract assumed) is not contradictory")
	// outcome covers: a boolean result can be false and can be true, an error result can be nil,
	// under the callee's contract (a contract that excludes an outcome the code may rely on
	// makes everything behind that outcome vacuous).  `total OUTCOME` in the callee's block
	// declares an excluded outcome intended.
	for i, rv := range vals {
		rt := rs.At(i).Type()
		if b, ok := rt.Underlying().(*types.Basic); ok && b.Kind() == types.Bool && rv.Sort == SBool {
			for _, pol := range []struct {
				n string
				t T
			}{{"true", rv}, {"false", Not(rv)}} {
				if fs.Excludes["result"+pol.n] {
					continue
				}
				s2 := st.clone()
				s2.assume(pol.t)
				u.addCover(s2, fmt.Sprintf("%s.result%d.%s", site, i, pol.n), "", "the call of "+name+" can return "+pol.n+" under its contract")
			}
		}
		if types.Identical(rt, types.Universe.Lookup("error").Type()) && !fs.Excludes["errnil"] {
			s2 := st.clone()
			s2.assume(Eq(app(SInt, "ity", rv), IntLit(0)))
			u.addCover(s2, fmt.Sprintf("%s.result%d.nil", site, i), "", "the call of "+name+" can succeed (nil error) under its contract")
		}
	}
	outs = append(outs, callRes{st: st, val: v})
	return outs
}

func labelOr(c *Clause, d string) string {
	if c.Label != "" {
		return c.Label
	}
	return d
}

func clauseProps(c *Clause, fs *FuncSpec) []string {
	if len(c.Props) > 0 {
		return c.Props
	}
	// a label of the form [Cnn.xxx] ties the clause to that property alone
	if l := c.Label; len(l) > 4 && l[0] == 'C' && l[1] >= '0' && l[1] <= '9' && l[2] >= '0' && l[2] <= '9' && l[3] == '.' {
		return []string{l[:3]}
	}
	return nil
}

// ---------------------------------------------------------------- havoc

// havocAll models a re-entrant callback or unknown code: every heap is
// replaced by a fresh one, except (a) field heaps declared immutable, and
// (b) locations of objects that are private to this activation.
func (u *Unit) havocAll(st *State, why string) { u.havocAllExcept(st, why, nil) }

// havocAllExcept: like havocAll, but heaps in `direct` (written directly by
// the code being summarised, e.g. a loop body) get no private-object frame.
func (u *Unit) havocAllExcept(st *State, why string, direct map[string]Sort) {
	old := st.view()
	oldHeaps := map[string]T{}
	for _, n := range u.heapOrder {
		oldHeaps[n] = u.heapGet(old, n, u.heapSorts[n])
	}
	st.epoch = u.eng.nextEpoch()
	newHeaps := map[string]T{}
	for _, n := range u.heapOrder {
		// immutable field heaps and internal ghost heaps are out of reach of
		// re-entrant code - but not of the code being summarised itself
		if _, isDirect := direct[n]; u.immutableHeap(n) && !isDirect {
			newHeaps[n] = oldHeaps[n]
			continue
		}
		newHeaps[n] = u.heapGet(heapView{map[string]T{}, st.epoch}, n, u.heapSorts[n])
	}
	st.heaps = newHeaps
	// allocation only grows
	if oa, ok := oldHeaps["alloc"]; ok {
		na := newHeaps["alloc"]
		for _, p := range st.private {
			st.assume(Select(na, p.ref))
		}
		_ = oa
		u.allocMonotone(st, oa, na)
	}
	for _, gn := range sortedKeys(map[string]*GhostHeap(u.eng.spec.GhostHeaps)) {
		gh := u.eng.spec.GhostHeaps[gn]
		hn := "G!" + gh.Name
		if gh.Mono == "" || newHeaps[hn].S == "" || newHeaps[hn].S == oldHeaps[hn].S {
			continue
		}
		u.declFun(gh.Mono, fmt.Sprintf("(%s %s) Bool", gh.Val, gh.Val))
		st.assume(T{fmt.Sprintf("(forall ((k!q %s)) (! (%s (select %s k!q) (select %s k!q)) :pattern ((select %s k!q))))", gh.Key, gh.Mono, newHeaps[hn].S, oldHeaps[hn].S, newHeaps[hn].S), SBool})
	}
	if direct != nil {
		oh, nh := map[string]T{}, map[string]T{}
		for n := range newHeaps {
			if _, isDirect := direct[n]; !isDirect {
				oh[n], nh[n] = oldHeaps[n], newHeaps[n]
			}
		}
		saved := u.heapOrder
		var order []string
		for _, n := range saved {
			if _, ok := nh[n]; ok {
				order = append(order, n)
			}
		}
		u.heapOrder = order
		u.framePrivate(st, oh, nh)
		u.heapOrder = saved
	} else {
		u.framePrivate(st, oldHeaps, newHeaps)
	}
	st.trace = append(st.trace, "havoc:"+why)
}

// allocMonotone records alloc ⊆ alloc' for the references the path has named.
func (u *Unit) allocMonotone(st *State, oa, na T) {
	st.assumeDef(T{fmt.Sprintf("(forall ((r!q Int)) (! (=> (select %s r!q) (select %s r!q)) :pattern ((select %s r!q))))", oa.S, na.S, na.S), SBool})
}

func (u *Unit) framePrivate(st *State, oldHeaps, newHeaps map[string]T) {
	for _, p := range st.private {
		for _, n := range u.heapOrder {
			if newHeaps[n].S == oldHeaps[n].S || n == "alloc" {
				continue
			}
			if heapBelongs(n, p.kind) {
				st.assumeDef(Eq(Select(newHeaps[n], p.ref), Select(oldHeaps[n], p.ref)))
			}
		}
	}
}

func heapBelongs(heap, kind string) bool {
	switch {
	case strings.HasPrefix(kind, "obj:"):
		return strings.HasPrefix(heap, "F!"+kind[4:]+"!")
	case strings.HasPrefix(kind, "arr:"):
		return heap == "E!"+smtName(kind[4:])
	case strings.HasPrefix(kind, "deref:"):
		return heap == "D!"+smtName(kind[6:])
	case strings.HasPrefix(kind, "map:"):
		parts := strings.SplitN(kind[4:], ":", 2)
		base := smtName(parts[0]) + "!" + smtName(parts[1])
		return heap == "MD!"+base || heap == "MV!"+base
	}
	return false
}

func (u *Unit) immutableHeap(name string) bool {
	if strings.HasPrefix(name, "G!") {
		if gh, ok := u.eng.spec.GhostHeaps[name[2:]]; ok && gh.Internal {
			return true
		}
	}
	if !strings.HasPrefix(name, "F!") {
		return false
	}
	parts := strings.Split(name[2:], "!")
	if len(parts) != 2 {
		return false
	}
	return u.eng.spec.Immutable[parts[0]+"."+parts[1]]
}

// havocNames havocs the listed heaps (with the private frame).
func (u *Unit) havocNames(st *State, names []string, why string) { u.havocNamesFrame(st, names, why, true) }

func (u *Unit) havocNamesFrame(st *State, names []string, why string, frame bool) {
	oldHeaps := map[string]T{}
	newHeaps := map[string]T{}
	for _, n := range names {
		srt, ok := u.heapSorts[n]
		if !ok {
			continue
		}
		oldHeaps[n] = u.heapGet(st.view(), n, srt)
		nh := u.fresh(n+"@h", srt)
		newHeaps[n] = nh
		st.heaps[n] = nh
	}
	if oa, ok := oldHeaps["alloc"]; ok {
		u.allocMonotone(st, oa, newHeaps["alloc"])
		for _, p := range st.private {
			st.assume(Select(newHeaps["alloc"], p.ref))
		}
	}
	if frame {
		saved := u.heapOrder
		u.heapOrder = names
		u.framePrivate(st, oldHeaps, newHeaps)
		u.heapOrder = saved
	}
	st.trace = append(st.trace, "havoc:"+why)
}

// havocModset havocs what a callee under contract may modify.
func (u *Unit) havocModset(st *State, callee string) {
	ms := u.eng.modsetOf(u, callee)
	if ms.all {
		u.havocAll(st, callee)
		return
	}
	var names []string
	for _, n := range sortedKeys(ms.heaps) {
		u.noteHeap(n, ms.heaps[n])
		names = append(names, n)
	}
	if len(names) > 0 {
		u.havocNames(st, names, callee)
	}
}

// ------------------------------------------------------------- events

func aliasOr(fs *FuncSpec, name string) string {
	if fs.Alias != "" {
		return fs.Alias
	}
	return name
}

// recordRes remembers the result of the last call of each matched event.
func (u *Unit) recordRes(evs []string, rs []callRes) []callRes {
	for _, r := range rs {
		if r.panicked {
			continue
		}
		for _, ev := range evs {
			u.recordResultSeq(r.st, ev, r.val)
			r.st.lastRes[ev] = r.val
			if r.st.lastCalleeGhost != nil {
				r.st.calleeGhosts[ev] = r.st.lastCalleeGhost
			}
		}
		r.st.lastCalleeGhost = nil
	}
	return rs
}

// recordResultSeq: events declared `record ... res:Sort` keep the (first)
// result of every call in a sequence indexed by call number: nthres(ev, k).
func (u *Unit) recordResultSeq(st *State, evName string, val Value) {
	for _, ev := range u.eng.spec.Events {
		if ev.Name != evName || !ev.Record {
			continue
		}
		srt, ok := ev.RecordArgs[-1]
		if !ok {
			continue
		}
		v := val
		if tp, isT := v.(Tuple); isT && len(tp) > 0 {
			v = tp[0]
		}
		tv, isT := v.(T)
		if !isT || tv.Sort != srt {
			continue
		}
		cn := "cnt!" + ev.Name
		cur, ok := st.cnt[cn]
		if !ok {
			continue
		}
		key := fmt.Sprintf("seq!%s!%d", ev.Name, -1)
		st.cnt[key] = Store(u.seqArray(st, key, srt), Sub(cur, IntLit(1)), tv)
	}
}

// checkAt evaluates `at MARK assert` clauses of the current function.
// checkAtStub: `at call:NAME` marks on library functions modelled by stubs
// (NAME as in events: "(*WaitGroup).Done" or its short form "WaitGroup.Done").
func (u *Unit) checkAtStub(st *State, instr ssa.Instruction, name string) {
	fs := u.atSpec(st)
	if fs == nil || len(fs.Asserts) == 0 {
		return
	}
	short := strings.NewReplacer("(*", "", ")", "").Replace(name)
	for _, c := range fs.Asserts {
		base := c.Mark
		if i := strings.LastIndex(base, "#"); i > 0 {
			base = base[:i]
		}
		if base == "call:"+name {
			u.checkAt(st, instr, "call:"+name)
			return
		}
		if base == "call:"+short {
			u.checkAt(st, instr, "call:"+short)
			return
		}
	}
}

func (u *Unit) checkAt(st *State, instr ssa.Instruction, mark string) {
	fs := u.atSpec(st)
	if fs == nil {
		return
	}
	sited := ""
	if instr != nil {
		sited = fmt.Sprintf("%s#%d", mark, u.siteOrdinal(instr))
	}
	for _, c := range fs.Asserts {
		if c.Mark != mark && c.Mark != sited {
			continue
		}
		if u.atHit == nil {
			u.atHit = map[*Clause]bool{}
		}
		u.atHit[c] = true
		if c.GhostTarget != "" {
			u.ghostNew(st, c)
			continue
		}
		env := u.newEnv(st)
		g := u.evalBool(env, c.Expr)
		u.addOblig(st, "at."+labelOr(c, "assert"), c.Text, c.Props, g, instr, "at "+mark+": "+c.Text)
		if !c.NoAssume {
			st.assume(g)
		}
	}
}

func (u *Unit) event(st *State, name string, args []Value) []string {
	var matched []string
	sited := ""
	if u.curInstr != nil {
		sited = fmt.Sprintf("%s#%d", name, u.siteOrdinal(u.curInstr))
	}
	for _, ev := range u.eng.spec.Events {
		if !eventMatches(ev.Pattern, name) && !(sited != "" && ev.Pattern == sited) {
			continue
		}
		if ev.Key != nil {
			env := u.newEnv(st)
			env.names = map[string]SV{}
			for i, a := range args {
				env.names[fmt.Sprintf("arg%d", i)] = SV{V: a}
			}
			k := u.evalTerm(env, ev.Key)
			cn := "cntk!" + ev.Name
			cur, ok := st.cnt[cn]
			if !ok {
				cur = u.counterInit(cn, ArrSort(k.Sort, SInt))
			}
			st.cnt[cn] = Store(cur, k, Add(Select(cur, k), IntLit(1)))
		}
		cn := "cnt!" + ev.Name
		cur, ok := st.cnt[cn]
		if !ok {
			cur = u.counterInit(cn, SInt)
		}
		if ev.Record {
			for i, srt := range ev.RecordArgs {
				if i < 0 || i >= len(args) {
					continue
				}
				at, isT := args[i].(T)
				if !isT || at.Sort != srt {
					continue
				}
				key := fmt.Sprintf("seq!%s!%d", ev.Name, i)
				st.cnt[key] = Store(u.seqArray(st, key, srt), cur, at)
			}
		}
		st.cnt[cn] = Add(cur, IntLit(1))
		st.lastArgs[ev.Name] = args
		if len(u.curArgTypes) == len(args) {
			u.lastArgTypes[ev.Name] = u.curArgTypes
		}
		matched = append(matched, ev.Name)
	}
	return matched
}

func (u *Unit) counterInit(name string, sort Sort) T {
	if sort == SInt {
		return IntLit(0)
	}
	return T{fmt.Sprintf("((as const %s) 0)", sort), sort}
}

// eventMayMatch: for havoc purposes (which counters can change in a region of
// code): a pattern restricted to one call site (NAME#k) may match any call of NAME.
func eventMayMatch(pattern, name string) bool {
	if i := strings.LastIndex(pattern, "#"); i > 0 {
		if _, err := strconv.Atoi(pattern[i+1:]); err == nil {
			pattern = pattern[:i]
		}
	}
	return eventMatches(pattern, name)
}

func eventMatches(pattern, name string) bool {
	if pattern == name {
		return true
	}
	if strings.HasSuffix(pattern, "*") && strings.HasPrefix(name, pattern[:len(pattern)-1]) {
		return true
	}
	return false
}

// ------------------------------------------------------------ builtins

func (u *Unit) builtin(st *State, instr ssa.Instruction, b *ssa.Builtin, cc *ssa.CallCommon, args []Value) []callRes {
	if b.Name() == "close" {
		u.checkAt(st, instr, "call:builtin.close")
	}
	switch b.Name() {
	case "ssa:deferstack":
		return one(st, IntLit(0))
	case "len":
		t := cc.Args[0].Type()
		v := u.lower(st, args[0], t)
		switch v.Sort {
		case SSlice:
			return one(st, app(SInt, "slen", v))
		case SStr:
			return one(st, app(SInt, "str.len", v))
		}
		if _, ok := t.Underlying().(*types.Map); ok {
			r := u.fresh("maplen", SInt)
			st.assume(Le(IntLit(0), r))
			return one(st, r)
		}
		if sl, ok := args[0].(*SliceLit); ok {
			return one(st, IntLit(int64(len(sl.lit.elems))))
		}
	case "cap":
		v := u.lower(st, args[0], cc.Args[0].Type())
		if v.Sort == SSlice {
			return one(st, app(SInt, "scap", v))
		}
	case "append":
		return one(st, u.appendOp(st, instr, cc, args))
	case "copy":
		return one(st, u.copyOp(st, instr, cc, args))
	case "delete":
		_, _, ks, vs := u.mapParts(cc.Args[0].Type())
		m := u.lower(st, args[0], cc.Args[0].Type())
		k := u.lower(st, args[1], cc.Args[1].Type())
		u.checkMapWrite(st, m, instr)
		dn, ds, _, _ := mapHeapNames(ks, vs)
		d := u.heapGet(st.view(), dn, ds)
		// delete on a nil map is a no-op
		u.heapSet(st, dn, Ite(Eq(m, IntLit(0)), d, Store(d, m, Store(Select(d, m), k, False))))
		return one(st, nil)
	case "recover":
		if st.panicking && st.frame != nil && st.frame.parent != nil {
			st.panicking = false
			pv := st.panicVal
			if pv.S == "" {
				pv = u.fresh("panicval", SIface)
				st.assume(Neq(app(SInt, "ity", pv), IntLit(0)))
			}
			st.cnt["flag!recovered"] = True
			return one(st, pv)
		}
		return one(st, T{"nil_iface", SIface})
	case "close":
		ch := u.lower(st, args[0], cc.Args[0].Type())
		u.event(st, "builtin.close", []Value{ch})
		u.onClose(st, instr, ch)
		return one(st, nil)
	case "panic":
		st.panicking = true
		return []callRes{{st: st, panicked: true}}
	case "print", "println":
		return one(st, nil)
	case "min", "max":
		a := u.lower(st, args[0], cc.Args[0].Type())
		c := u.lower(st, args[1], cc.Args[1].Type())
		if b.Name() == "min" {
			return one(st, Ite(Le(a, c), a, c))
		}
		return one(st, Ite(Le(a, c), c, a))
	}
	u.unsupportedf("builtin %s", b.Name())
	return one(st, u.fresh("builtin", SInt))
}

// appendOp implements append(s, elems...) with Go's aliasing semantics:
// in place when capacity allows, otherwise a fresh backing array.
func (u *Unit) appendOp(st *State, instr ssa.Instruction, cc *ssa.CallCommon, args []Value) Value {
	stype := cc.Args[0].Type()
	if isByteSlice(stype) {
		u.unsupportedf("append on byte slice")
		return u.fresh("bytes", SStr)
	}
	et := stype.Underlying().(*types.Slice).Elem()
	es := u.sortOf(et)
	s := u.lower(st, args[0], stype)
	u.checkDerivedUse(st, s, instr, true)
	hn, hs := elemHeapName(es)
	h := u.heapGet(st.view(), hn, hs)
	sarr, soff, slen, scap := app(SInt, "sarr", s), app(SInt, "soff", s), app(SInt, "slen", s), app(SInt, "scap", s)

	var n T
	var elemAt func(j T) T // j relative index in appended elems
	var lits []T
	if sl, ok := args[1].(*SliceLit); ok {
		for _, e := range sl.lit.elems {
			tv := u.lower(st, e, et)
			st.escape(tv)
			lits = append(lits, tv)
		}
		n = IntLit(int64(len(lits)))
	} else {
		t2 := u.lower(st, args[1], cc.Args[1].Type())
		if t2.S == "nil_slice" {
			return s
		}
		u.checkDerivedUse(st, t2, instr, false)
		n = app(SInt, "slen", t2)
		src := Select(h, app(SInt, "sarr", t2))
		off2 := app(SInt, "soff", t2)
		elemAt = func(j T) T { return Select(src, Add(off2, j)) }
	}
	newLen := Add(slen, n)
	fits := Le(newLen, scap)
	// in-place row / fresh row
	freshArr := u.fresh("arr.append", SInt)
	al := u.heapGet(st.view(), "alloc", ArrSort(SInt, SBool))
	st.assumeDef(Implies(Not(fits), And(Not(Select(al, freshArr)), Lt(IntLit(0), freshArr))))
	st.private = append(st.private, privRef{freshArr, "arr:" + string(es), ""})
	srcPrivate := u.isPrivateArr(st, s)
	u.heapSet(st, "alloc", Ite(fits, al, Store(al, freshArr, True)))
	newCap := u.fresh("cap.append", SInt)
	st.assumeDef(Le(newLen, newCap))
	st.assumeDef(Le(newCap, T{"4611686018427387904", SInt}))
	name := func(t T, hint string) T {
		if !strings.HasPrefix(t.S, "(") {
			return t
		}
		c := u.fresh(hint, t.Sort)
		st.assumeDef(Eq(c, t))
		return c
	}
	slen, soff, sarr = name(slen, "app.len"), name(soff, "app.off"), name(sarr, "app.arr")
	newLen = name(Add(slen, n), "app.newlen")
	resArr := name(Ite(fits, sarr, freshArr), "app.resarr")
	resOff := name(Ite(fits, soff, IntLit(0)), "app.resoff")
	resCap := Ite(fits, scap, newCap)
	res := app(SSlice, "mk_slice", resArr, resOff, newLen, resCap)

	// general case: new heap described by quantified facts over selem
	h2 := u.fresh(hn+"@append", hs)
	resC := name(res, "app.res")
	sC := name(s, "app.s")
	q := fmt.Sprintf("(forall ((a!q Int)) (! (=> (not (= a!q %s)) (= (select %s a!q) (select %s a!q))) :pattern ((select %s a!q)) :pattern ((select %s a!q))))", resArr.S, h2.S, h.S, h2.S, h.S)
	st.assumeDef(T{q, SBool})
	iq := T{"i!q", SInt}
	var appended T
	if lits != nil {
		// literal elements: nested ite on the relative index
		appended = lits[len(lits)-1]
		for j := len(lits) - 2; j >= 0; j-- {
			appended = Ite(Eq(Sub(iq, slen), IntLit(int64(j))), lits[j], appended)
		}
	} else {
		t2C := name(u.lower(st, args[1], cc.Args[1].Type()), "app.t")
		appended = u.selem(h, t2C, Sub(iq, slen))
	}
	q2 := fmt.Sprintf("(forall ((i!q Int)) (! (=> (and (<= 0 i!q) (< i!q %s)) (= %s (ite (< i!q %s) %s %s))) :pattern (%s)))",
		newLen.S, u.selem(h2, resC, iq).S, slen.S, u.selem(h, sC, iq).S, appended.S, u.selem(h2, resC, iq).S)
	st.assumeDef(T{q2, SBool})
	_ = elemAt
	row2 := Select(h2, resArr)
	rowOld := Select(h, sarr)
	q4 := fmt.Sprintf("(=> %s (forall ((i!q Int)) (! (=> (or (< i!q %s) (>= i!q (+ %s %s))) (= (select %s i!q) (select %s i!q))) :pattern ((select %s i!q)))))",
		fits.S, soff.S, soff.S, newLen.S, row2.S, rowOld.S, row2.S)
	st.assumeDef(T{q4, SBool})
	res = resC
	u.sliceArr[resC.S] = resArr.S
	if srcPrivate {
		// appending to a private (or nil) slice yields a private slice
		st.private = append(st.private, privRef{resArr, "arr:" + string(es), ""})
	}
	u.heapSet(st, hn, h2)
	return res
}

func (u *Unit) copyOp(st *State, instr ssa.Instruction, cc *ssa.CallCommon, args []Value) Value {
	dt := cc.Args[0].Type()
	if isByteSlice(dt) {
		u.unsupportedf("copy on byte slice")
		return u.fresh("copy", SInt)
	}
	et := dt.Underlying().(*types.Slice).Elem()
	es := u.sortOf(et)
	d := u.lower(st, args[0], dt)
	s := u.lower(st, args[1], cc.Args[1].Type())
	u.checkDerivedUse(st, s, instr, false)
	u.checkDerivedUse(st, d, instr, true)
	hn, hs := elemHeapName(es)
	h := u.heapGet(st.view(), hn, hs)
	n := Ite(Le(app(SInt, "slen", d), app(SInt, "slen", s)), app(SInt, "slen", d), app(SInt, "slen", s))
	h2 := u.fresh(hn+"@copy", hs)
	nm := func(t T, hint string) T {
		if !strings.HasPrefix(t.S, "(") {
			return t
		}
		c := u.fresh(hint, t.Sort)
		st.assumeDef(Eq(c, t))
		return c
	}
	d, s = nm(d, "copy.dst"), nm(s, "copy.src")
	n = nm(n, "copy.n")
	darr, doff := app(SInt, "sarr", d), app(SInt, "soff", d)
	st.assumeDef(T{fmt.Sprintf("(forall ((a!q Int)) (! (=> (not (= a!q %s)) (= (select %s a!q) (select %s a!q))) :pattern ((select %s a!q)) :pattern ((select %s a!q))))", darr.S, h2.S, h.S, h2.S, h.S), SBool})
	iq := T{"i!q", SInt}
	st.assumeDef(T{fmt.Sprintf("(forall ((i!q Int)) (! (=> (and (<= 0 i!q) (< i!q %s)) (= %s %s)) :pattern (%s)))",
		n.S, u.selem(h2, d, iq).S, u.selem(h, s, iq).S, u.selem(h2, d, iq).S), SBool})
	st.assumeDef(T{fmt.Sprintf("(forall ((i!q Int)) (! (=> (or (< i!q %s) (>= i!q (+ %s %s))) (= (select (select %s %s) i!q) (select (select %s %s) i!q))) :pattern ((select (select %s %s) i!q))))",
		doff.S, doff.S, n.S, h2.S, darr.S, h.S, darr.S, h2.S, darr.S), SBool})
	u.heapSet(st, hn, h2)
	// copy has memmove semantics: the elements are read from the pre-state heap, so overlapping ranges are modelled exactly
	return n
}

// ------------------------------------------------------- go / select / chan

func (u *Unit) doGo(st *State, x *ssa.Go) {
	callee := u.calleeValue(st, &x.Call)
	var args []Value
	for _, a := range x.Call.Args {
		args = append(args, u.get(st, a))
	}
	name := "?"
	var fn *ssa.Function
	var binds []Value
	switch c := callee.(type) {
	case *Closure:
		fn, binds = c.fn, c.binds
	case *FuncVal:
		fn = c.fn
	}
	if fn != nil {
		name = relName(fn)
	}
	u.checkAt(st, x, "go:"+name)
	u.event(st, "go:"+name, args)
	// lock discipline: spawning is not blocking; nothing to check.
	// token transfer according to the goroutine body's contract
	if fn != nil {
		if fs := u.eng.spec.Funcs[name]; fs != nil {
			u.spawnContract(st, x, fs, fn, args, binds)
			for _, b := range binds {
				if p, ok := b.(*Ptr); ok && p.kind == pCell {
					_ = p
				}
			}
			return
		}
	}
	u.unsupportedf("go %s: goroutine body has no contract", name)
}

// spawnContract checks the spawn-time preconditions of a goroutine body and
// transfers WaitGroup credits (`requires` clauses of the form token(x) are
// interpreted by the engine; all other requires are ordinary obligations).
func (u *Unit) spawnContract(st *State, x *ssa.Go, fs *FuncSpec, fn *ssa.Function, args []Value, binds []Value) {
	site := fmt.Sprintf("go.%s#%d", fs.Name, u.siteOrdinal(x))
	env := u.newEnv(st)
	env.names = map[string]SV{}
	for i, p := range fn.Params {
		if i < len(args) {
			env.names[p.Name()] = SV{V: args[i], Typ: p.Type()}
		}
	}
	for i, fv := range fn.FreeVars {
		if i < len(binds) {
			// free variables are pointers to the captured variables
			env.names["&"+fv.Name()] = SV{V: binds[i], Typ: fv.Type()}
			if p, ok := binds[i].(*Ptr); ok {
				env.names[fv.Name()] = SV{V: u.load(st, p), Typ: fv.Type().(*types.Pointer).Elem()}
				env.ptrs = append(env.ptrs, namedPtr{fv.Name(), p})
			}
		}
	}
	for _, c := range fs.Requires {
		if tk, n, ok := u.tokenClause(env, c); ok {
			have := st.tokens[tk]
			goal := False
			if have >= n {
				goal = True
			}
			u.addOblig(st, site+".token."+labelOr(c, "token"), c.Text, clauseProps(c, fs), goal, x, fmt.Sprintf("spawn hands over %d credit(s) of %s (held: %d): Add must precede go", n, tk, have))
			st.tokens[tk] = have - n
			continue
		}
		g := u.evalBool(env, c.Expr)
		u.addOblig(st, site+".pre."+labelOr(c, "requires"), c.Text, clauseProps(c, fs), g, x, "spawn precondition: "+c.Text)
	}
}

// tokenClause recognises `token(EXPR)` / `token(EXPR, n)`.
func (u *Unit) tokenClause(env *SpecEnv, c *Clause) (string, int, bool) {
	g, ok := c.Expr.(*SEGo)
	if !ok {
		return "", 0, false
	}
	key, n, ok := u.tokenExpr(env, g)
	return key, n, ok
}

func (u *Unit) doSelect(st *State, x *ssa.Select) []*State {
	// supported: receive-only selects whose channels are ctx.Done() or
	// one-shot channels with a declared close invariant.
	var outs []*State
	mk := func(s *State, idx int) *State {
		tp := Tuple{IntLit(int64(idx)), u.fresh("recvok", SBool)}
		for _, sc := range x.States {
			if sc.Dir == types.RecvOnly {
				tp = append(tp, u.fresh("recv", u.sortOf(sc.Chan.Type().Underlying().(*types.Chan).Elem())))
			}
		}
		s.frame.regs[x] = tp
		return s
	}
	if !x.Blocking {
		if len(x.States) == 1 && x.States[0].Dir == types.RecvOnly {
			ch := u.lower(st, u.get(st, x.States[0].Chan), x.States[0].Chan.Type())
			if ctx, ok := ctxOfDoneChan(ch); ok {
				d := u.ctxCheck(st, ctx)
				s1 := st.clone()
				s1.assume(d)
				s2 := st
				s2.assume(Not(d))
				return []*State{mk(s1, 0), mk(s2, -1)}
			}
		}
		u.unsupportedf("non-blocking select form")
		return []*State{mk(st, -1)}
	}
	u.checkBlocking(st, x, "select")
	for i, sc := range x.States {
		if sc.Dir != types.RecvOnly {
			u.unsupportedf("select with send")
			continue
		}
		ch := u.lower(st, u.get(st, sc.Chan), sc.Chan.Type())
		s := st.clone()
		if ctx, ok := ctxOfDoneChan(ch); ok {
			s.ctxDone[ctx] = True
			s.assume(app(SBool, "ctxDoneNow", T{ctx, SIface}))
		} else {
			u.onRecvClosed(s, ch)
		}
		outs = append(outs, mk(s, i))
	}
	return outs
}

func ctxOfDoneChan(ch T) (string, bool) {
	const p = "(ctxDoneChan "
	if strings.HasPrefix(ch.S, p) {
		return ch.S[len(p) : len(ch.S)-1], true
	}
	return "", false
}

// ctxCheck answers "is ctx done now?" by the monotone oracle.
func (u *Unit) ctxCheck(st *State, ctx string) T {
	d := u.fresh("ctxdone", SBool)
	if prev, ok := st.ctxDone[ctx]; ok {
		st.assume(Implies(prev, d))
	}
	st.assume(Implies(app(SBool, "doneAtEntry", T{ctx, SIface}), d))
	st.ctxDone[ctx] = d
	st.cnt["flag!lastctxcheck"] = d
	return d
}

func (u *Unit) doRecv(st *State, x *ssa.UnOp) Value {
	u.checkBlocking(st, x, "channel receive")
	ch := u.lower(st, u.get(st, x.X), x.X.Type())
	u.onRecvClosed(st, ch)
	et := x.X.Type().Underlying().(*types.Chan).Elem()
	v := u.fresh("recv", u.sortOf(et))
	if x.CommaOk {
		return Tuple{v, u.fresh("recvok", SBool)}
	}
	return v
}

// one-shot channels: closing asserts the declared invariant (ghost predicate
// chanInv(ch)), a receive assumes it.
func (u *Unit) onClose(st *State, instr ssa.Instruction, ch T) {
	st.cnt["flag!closed:"+ch.S] = True
}

func (u *Unit) onRecvClosed(st *State, ch T) {
	st.assume(app(SBool, "chanClosed", ch))
	fs := u.specOfFrame(st)
	if fs == nil {
		return
	}
	for _, c := range fs.ChanInvs {
		cell, ok := st.frame.named[c.Mark]
		if !ok {
			continue
		}
		cur, ok := st.cells[cell].(T)
		if !ok || cur.S != ch.S {
			continue
		}
		// one-shot channel: a receive succeeds only after close(ch); the
		// closer asserted the invariant (checked: chaninv.closers)
		env := u.newEnv(st)
		st.assume(u.evalBool(env, c.Expr))
		u.note("one-shot channel " + c.Mark + ": a receive that succeeds happens after close (M4-style happens-before of channel close)")
	}
}

// checkChanInvClosers: every literal that closes a channel with a declared
// invariant asserts that invariant at the close.
func (u *Unit) checkChanInvClosers(st *State) {
	if u.fs == nil {
		return
	}
	for _, c := range u.fs.ChanInvs {
		ok := true
		why := ""
		closers := 0
		for _, b := range u.fn.Blocks {
			for _, in := range b.Instrs {
				mc, isMC := in.(*ssa.MakeClosure)
				if !isMC {
					continue
				}
				lit := mc.Fn.(*ssa.Function)
				closes := false
				for _, lb := range lit.Blocks {
					for _, li := range lb.Instrs {
						if call, isCall := li.(*ssa.Call); isCall {
							if bi, isB := call.Call.Value.(*ssa.Builtin); isB && bi.Name() == "close" {
								closes = true
							}
						}
					}
				}
				if !closes {
					continue
				}
				closers++
				lfs := u.eng.spec.Funcs[relName(lit)]
				found := false
				if lfs != nil {
					for _, a := range lfs.Asserts {
						if a.Mark == "call:builtin.close" && normSpace(a.Text) == normSpace(c.Text) {
							found = true
						}
					}
				}
				if !found {
					ok = false
					why += " " + relName(lit)
				}
			}
		}
		// closing in the function itself is not supported
		for _, b := range u.fn.Blocks {
			for _, in := range b.Instrs {
				if call, isCall := in.(*ssa.Call); isCall {
					if bi, isB := call.Call.Value.(*ssa.Builtin); isB && bi.Name() == "close" {
						ok = false
						why += " (closed in the function itself)"
					}
				}
			}
		}
		goal := True
		if !ok || closers == 0 {
			goal = False
		}
		u.addOblig(st, "chaninv."+c.Mark+".closers", c.Text, c.Props, goal, nil, "every literal that closes channel "+c.Mark+" asserts its invariant at the close ("+c.Text+"):"+why)
	}
}

func normSpace(s string) string { return strings.Join(strings.Fields(s), " ") }

// ------------------------------------------------------- obligations

func (u *Unit) addOblig(st *State, name, text string, props []string, goal T, in ssa.Instruction, descr string) {
	if goal.S == "true" {
		// still counted: record as trivially discharged
	}
	pos := ""
	if in != nil && in.Pos().IsValid() {
		pos = u.eng.prog.Fset.Position(in.Pos()).String()
	} else if in != nil {
		// nearest positioned instruction in the block
		for _, j := range in.Block().Instrs {
			if j.Pos().IsValid() {
				pos = u.eng.prog.Fset.Position(j.Pos()).String() + " (near)"
				break
			}
		}
	}
	if props == nil {
		props = u.props
	}
	o := &Oblig{Name: relName(u.fn) + "#" + name, Props: props, Func: relName(u.fn), Kind: strings.SplitN(name, ".", 2)[0], Pos: pos, Text: descr,
		Assume: append([]T(nil), st.pc...), Goal: goal, Trace: append([]string(nil), st.trace...)}
	u.obligs = append(u.obligs, o)
}

// addCover records a reachability check: the assumptions collected so far must
// not be contradictory (an inconsistent assumed contract, invariant or
// precondition would make every later obligation hold vacuously).
func (u *Unit) addCover(st *State, name, group, text string) {
	n := relName(u.fn) + "#cover." + name
	for _, c := range u.covers {
		if c.Name == n && group != "exit" {
			// one cover per site: keep the first path instance
			return
		}
	}
	if group == "exit" {
		n = fmt.Sprintf("%s.%d", n, len(u.covers))
	}
	u.covers = append(u.covers, &Oblig{Name: n, Func: relName(u.fn), Kind: "cover", Group: group, Assume: append([]T(nil), st.pc...), Goal: False, Text: text})
}

func (u *Unit) checkNonNilPtr(st *State, p *Ptr, in ssa.Instruction) {
	if p.kind == pDeref {
		u.addOblig(st, "nopanic.nilderef", "", nil, Neq(p.base, IntLit(0)), in, "implicit: pointer dereference of non-nil pointer")
	}
}

// constInt extracts a constant integer argument.
func constInt(v ssa.Value) (int64, bool) {
	if c, ok := v.(*ssa.Const); ok && c.Value != nil && c.Value.Kind() == constant.Int {
		return constant.Int64Val(c.Value)
	}
	return 0, false
}

// siteOrdinal numbers a call site among the call sites of the same callee in
// its function, in source order (stable under unrelated edits).
func (u *Unit) siteOrdinal(in ssa.Instruction) int {
	if in == nil {
		return 0
	}
	fn := in.Parent()
	if u.siteOrd == nil {
		u.siteOrd = map[ssa.Instruction]int{}
	}
	if n, ok := u.siteOrd[in]; ok {
		return n
	}
	type site struct {
		in  ssa.Instruction
		key string
		pos int
	}
	var sites []site
	for _, b := range fn.Blocks {
		for i, x := range b.Instrs {
			var cc *ssa.CallCommon
			switch c := x.(type) {
			case *ssa.Call:
				cc = &c.Call
			case *ssa.Defer:
				cc = &c.Call
			case *ssa.Go:
				cc = &c.Call
			default:
				continue
			}
			p := int(x.Pos())
			if p == 0 {
				p = 1<<40 + b.Index*10000 + i
			}
			sites = append(sites, site{x, u.calleeKey(cc), p})
		}
	}
	sort.SliceStable(sites, func(i, j int) bool { return sites[i].pos < sites[j].pos })
	count := map[string]int{}
	for _, s := range sites {
		count[s.key]++
		u.siteOrd[s.in] = count[s.key]
	}
	return u.siteOrd[in]
}

func (u *Unit) calleeKey(cc *ssa.CallCommon) string {
	if cc.IsInvoke() {
		return u.typeName(cc.Value.Type()) + "." + cc.Method.Name()
	}
	switch c := cc.Value.(type) {
	case *ssa.Builtin:
		return "builtin." + c.Name()
	case *ssa.Function:
		return relName(c)
	case *ssa.MakeClosure:
		return relName(c.Fn.(*ssa.Function))
	}
	return u.typeName(cc.Value.Type())
}

// havocFields implements `effect fields PARAM f1 f2 ...`: the callee may
// assign the listed fields of the object PARAM points to, and nothing else.
func (u *Unit) havocFields(st *State, fs *FuncSpec, env *SpecEnv) {
	parts := strings.Fields(fs.Effect)
	if len(parts) < 2 {
		return
	}
	sv, ok := env.names[parts[1]]
	if !ok || sv.Typ == nil {
		u.unsupportedf("effect fields: unknown parameter %s", parts[1])
		u.havocAll(st, fs.Name)
		return
	}
	pt, ok := sv.Typ.Underlying().(*types.Pointer)
	if !ok {
		u.unsupportedf("effect fields: %s is not a pointer", parts[1])
		return
	}
	stt, ok := pt.Elem().Underlying().(*types.Struct)
	if !ok {
		return
	}
	ref := u.lower(st, sv.V, sv.Typ)
	for _, f := range parts[2:] {
		found := false
		for i := 0; i < stt.NumFields(); i++ {
			if stt.Field(i).Name() == f {
				hn, hs, _ := u.fieldHeapName(pt.Elem(), i)
				h := u.heapGet(st.view(), hn, hs)
				nv := u.freshOfType(st, "field."+f, stt.Field(i).Type())
				u.heapSet(st, hn, Store(h, ref, nv))
				found = true
			}
		}
		if !found {
			u.unsupportedf("effect fields: no field %s", f)
		}
	}
}

// havocGhostEntry implements `modifies NAME(keyexpr)`.
func (u *Unit) havocGhostEntry(st *State, env *SpecEnv, clause string) {
	i := strings.Index(clause, "(")
	if i < 0 || !strings.HasSuffix(clause, ")") {
		u.unsupportedf("bad modifies clause %q", clause)
		return
	}
	gh, ok := u.eng.spec.GhostHeaps[clause[:i]]
	if !ok {
		u.unsupportedf("modifies: unknown ghost heap %q", clause[:i])
		return
	}
	se, err := parseSE(clause[i+1 : len(clause)-1])
	if err != nil {
		u.unsupportedf("modifies: %v", err)
		return
	}
	k := u.evalTerm(env, se)
	hn := "G!" + gh.Name
	h := u.heapGet(st.view(), hn, ArrSort(gh.Key, gh.Val))
	nv := u.fresh("ghost."+gh.Name, gh.Val)
	if gh.Mono != "" {
		st.assume(u.ghost(gh.Mono, SBool, nv, Select(h, k)))
	}
	u.heapSet(st, hn, Store(h, k, nv))
}

// seqArray returns the current ghost array of recorded arguments.
func (u *Unit) seqArray(st *State, key string, srt Sort) T {
	if arr, ok := st.cnt[key]; ok {
		return arr
	}
	name := smtName(key) + "@0"
	u.decls.Add(name, fmt.Sprintf("(declare-const %s %s)", name, ArrSort(SInt, srt)))
	arr := T{name, ArrSort(SInt, srt)}
	st.cnt[key] = arr
	return arr
}

// iterateCall models the call it(yield) of an iterator value (iter.Seq2) by
// the iterator protocol over the ghost sequence seqLen(it)/seqAt(it,k)/
// seqErr(it):  yield(seqAt(it,0),nil), yield(seqAt(it,1),nil), ... stopping
// when yield returns false; after the last element, if seqErr(it) != nil,
// one final yield(nil, seqErr(it)).  The (inlined) yield body is cut like a
// loop by the caller's `iterate invariant` clauses (which may mention iterk,
// the number of elements yielded so far).
func (u *Unit) iterateCall(st *State, instr ssa.Instruction, fs *FuncSpec, name string, args []Value, sig *types.Signature) []callRes {
	u.note("iterator protocol (iterates): an iter.Seq2 value calls yield on the elements of its ghost sequence in order, stops when yield returns false, and reports failure by one final yield(nil, err); proved for ebu's own iterators, assumed for foreign streamers")
	if len(args) < 2 {
		u.unsupportedf("iterate: expected it(yield)")
		return one(st, nil)
	}
	it := u.lower(st, args[0], nil)
	y, ok := args[1].(*Closure)
	if !ok {
		u.unsupportedf("iterate: yield is not a function literal of the caller")
		u.havocAll(st, "iterate")
		return one(st, nil)
	}
	u.declFun("seqLen", "(Int) Int")
	u.declFun("seqAt", "(Int Int) Int")
	u.declFun("seqErr", "(Int) Iface")
	seqLen := app(SInt, "seqLen", it)
	st.assume(Le(IntLit(0), seqLen))
	cfs := u.specOfFrame(st)
	var inv []*Clause
	if cfs != nil {
		inv = cfs.IterInv
	}
	tag := "iterate"
	evalInv := func(s *State, k T, c *Clause) T {
		env := u.newEnv(s)
		env.names = map[string]SV{"iterk": {V: k, Typ: types.Typ[types.Int]}, "iterator": {V: it}}
		return u.evalBool(env, c.Expr)
	}
	for _, c := range inv {
		u.addOblig(st, tag+".inv."+labelOr(c, "inv")+".entry", c.Text, clauseProps(c, cfs), evalInv(st, IntLit(0), c), instr, "iterator-call invariant holds before the first yield: "+c.Text)
	}
	// havoc what the yield body may modify
	eff := u.effectsOfFunc(y.fn, map[*ssa.Function]bool{})
	for i, fv := range y.fn.FreeVars {
		if eff.roots[fv] && i < len(y.binds) {
			if p, ok := y.binds[i].(*Ptr); ok && p.kind == pCell && !st.promo[p.cell] {
				cur := st.cells[p.cell]
				if _, isT := cur.(T); isT || cur == nil {
					st.cells[p.cell] = u.freshOfType(st, "iter."+p.cell.name, p.cell.typ)
				}
			}
		}
	}
	if eff.all {
		for _, n := range sortedKeys(eff.heaps) {
			u.noteHeap(n, eff.heaps[n])
		}
		u.havocAllExcept(st, tag, eff.heaps)
	} else {
		var names []string
		for _, n := range sortedKeys(eff.heaps) {
			u.noteHeap(n, eff.heaps[n])
			names = append(names, n)
		}
		if len(names) > 0 {
			u.havocNamesFrame(st, names, tag, false)
		}
	}
	for k, prev := range st.ctxDone {
		d := u.fresh("ctxdone.iter", SBool)
		st.assume(Implies(prev, d))
		st.ctxDone[k] = d
	}
	names := map[string]bool{}
	u.callNamesInBlocks(y.fn, nil, map[*ssa.Function]bool{}, names)
	for _, ev := range u.eng.spec.Events {
		hit := false
		for n := range names {
			if eventMayMatch(ev.Pattern, n) {
				hit = true
			}
		}
		if !hit {
			continue
		}
		cn := "cnt!" + ev.Name
		cur, ok := st.cnt[cn]
		if !ok {
			cur = IntLit(0)
		}
		nv := u.fresh("iter."+cn, SInt)
		st.assume(Le(cur, nv))
		st.cnt[cn] = nv
		delete(st.lastArgs, ev.Name)
		if ev.Record {
			for i, srt := range ev.RecordArgs {
				st.cnt[fmt.Sprintf("seq!%s!%d", ev.Name, i)] = u.fresh("iter.seq", ArrSort(SInt, srt))
			}
		}
	}
	k := u.fresh("iterk", SInt)
	st.assume(And(Le(IntLit(0), k), Le(k, seqLen)))
	for _, c := range inv {
		st.assume(evalInv(st, k, c))
	}
	var outs []callRes
	// A: one more element
	sa := st.clone()
	sa.assume(Lt(k, seqLen))
	elem := app(SInt, "seqAt", it, k)
	sa.assume(Neq(elem, IntLit(0)))
	u.assumeAllocated(sa, elem)
	for _, r := range u.inline(sa, y.fn, []Value{elem, T{"nil_iface", SIface}}, y.binds) {
		if r.panicked {
			outs = append(outs, r)
			continue
		}
		rv, isT := r.val.(T)
		if !isT {
			u.unsupportedf("iterate: yield did not return a bool")
			continue
		}
		if rv.S != "false" {
			cont := r.st.clone()
			cont.assume(rv)
			for _, c := range inv {
				u.addOblig(cont, tag+".inv."+labelOr(c, "inv")+".preserve", c.Text, clauseProps(c, cfs), evalInv(cont, Add(k, IntLit(1)), c), instr, "iterator-call invariant preserved by one yield: "+c.Text)
			}
		}
		if rv.S != "true" {
			stop := r.st
			stop.assume(Not(rv))
			outs = append(outs, callRes{st: stop})
		}
	}
	// B: exhausted
	sb := st
	sb.assume(Eq(k, seqLen))
	errv := app(SIface, "seqErr", it)
	sb1 := sb.clone()
	sb1.assume(Eq(app(SInt, "ity", errv), IntLit(0)))
	outs = append(outs, callRes{st: sb1})
	sb.assume(Neq(app(SInt, "ity", errv), IntLit(0)))
	for _, r := range u.inline(sb, y.fn, []Value{IntLit(0), errv}, y.binds) {
		outs = append(outs, callRes{st: r.st, panicked: r.panicked})
	}
	return outs
}

// arrOf resolves the backing-array term of a slice term where the engine
// knows it syntactically.
func (u *Unit) arrOf(sl T) string {
	if a, ok := u.sliceArr[sl.S]; ok {
		return a
	}
	return app(SInt, "sarr", sl).S
}

// isPrivateArr: the slice is nil or its backing array is private to this activation.
func (u *Unit) isPrivateArr(st *State, sl T) bool {
	if sl.S == "nil_slice" {
		return true
	}
	a := u.arrOf(sl)
	if a == "0" {
		return true
	}
	for _, p := range st.private {
		if p.ref.S == a {
			return true
		}
	}
	return false
}

// isPrivateSliceTerm: like isPrivateArr, looking through named terms and
// if-then-else merges.
func (u *Unit) isPrivateSliceTerm(st *State, sl T, depth int) bool {
	if depth > 6 {
		return false
	}
	if u.isPrivateArr(st, sl) {
		return true
	}
	s := sl.S
	if def, ok := u.defOf[s]; ok {
		s = def
	}
	if parts := ctorArgs(s, "ite"); len(parts) == 3 {
		return u.isPrivateSliceTerm(st, T{parts[1], SSlice}, depth+1) && u.isPrivateSliceTerm(st, T{parts[2], SSlice}, depth+1)
	}
	return false
}

// typeSubstOf: for a call of an instantiated generic function, the mapping
// from the callee's type parameter names to the type arguments of this call.
func (u *Unit) typeSubstOf(instr ssa.Instruction) map[string]types.Type {
	var cc *ssa.CallCommon
	switch x := instr.(type) {
	case *ssa.Call:
		cc = &x.Call
	case *ssa.Defer:
		cc = &x.Call
	case *ssa.Go:
		cc = &x.Call
	}
	if cc == nil {
		return nil
	}
	fn := cc.StaticCallee()
	if fn == nil || fn.Origin() == nil {
		return nil
	}
	tps := fn.Origin().TypeParams()
	targs := fn.TypeArgs()
	if tps.Len() != len(targs) {
		return nil
	}
	m := map[string]types.Type{}
	for i := 0; i < tps.Len(); i++ {
		m[tps.At(i).Obj().Name()] = targs[i]
	}
	return m
}
