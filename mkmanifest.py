#!/usr/bin/env python3
"""Regenerates /verif/MANIFEST.json from the table below (kept in one place so that
claims, levels and not_applicable reasons stay consistent)."""
import json, subprocess

TRUST = ("Trusted base: the go/ssa translation and the symbolic executor of /verif/engine; the SMT solvers; "
         "assumed contracts of the Go standard library and third-party dependencies (listed per run in the evidence "
         "trusted_base); meta-theorems M1-M8 of DESIGN.md 3.9 where concurrency is involved; input-domain "
         "preconditions stated in the contracts (bus created by New, non-nil context, callbacks other than handlers do not panic).")

CLAIMS = {
 "C01": ("Registry contracts: every registry operation (Subscribe, SubscribeContext, Unsubscribe, Clear, ClearAll, HasHandlers, HandlerCount, the Once-removal section of PublishContext) is one critical section on the shard selected by shardIdx(typeOf(T)) whose effect on the abstract registry (map type -> sequence of registrations) is stated as a whole-view postcondition with frame; the shard lock invariant keeps every list typed by its key; PublishContext snapshots the list into a fresh array under the read lock and its dispatch loop delivers each snapshot element at most once, in index order, with the published value. Proved for every registry state, handler list and iteration count. Unsubscribe removes exactly the first matching registration and keeps the order of the rest (quantified postcondition); the Once-retirement section of PublishContext removes exactly the fired Once handlers - every other registration is kept, nothing is added and the relative order is unchanged (ghost position maps kept by the contract's loop ghost state); registrations of one type are pairwise distinct (lock invariant).", "5 C01"),
 "C02": ("Linearizability argument by contracts: each registry operation takes the shard lock exactly once (cs.single), its critical-section contract is its sequential specification, the handler record is immutable after publication (immutability scan) and delivery is at most once per snapshot element; with M1-M3 (lock-protected sections are atomic, lock invariants) this gives the stated bounds for every interleaving. The composition step itself (M7) is a trusted meta-theorem, not a discharged obligation.", "5 C02"),
 "C03": ("For the root, state and stores/sqlite packages. Data races: every read/write of a lock-guarded field (and of the maps/slices reached through it) is an obligation 'lock held in the right mode' on every function under contract, a package scan demands that every function touching a mutex or guarded field IS under contract (closed world), and further scans demand that every field written after construction is lock-guarded, atomic (CAS 0->1 only) or immutable-after-construction; with M1 (mutex happens-before) that excludes data races on ebu's own state. Deadlocks: locks are taken in level order, released on every path including panics, never held across a loop iteration boundary, and every user callback is invoked with no ebu lock held - except the Sequential handler mutex, which is the recorded known finding (two Sequential handlers publishing to each other deadlock). Not covered: the durablestream and otel modules, blocking on channels/WaitGroups (a handler that calls Wait on its own bus), configuration setters (excluded by the statement).", "5 C03"),
 "C04": ("Once claim/dispatch contracts of PublishContext (per-iteration), its goroutine literal, the atomic-field scan (executed only ever CAS 0->1) and the immutability scan, discharged for all inputs and iteration counts; all schedules through M5 (CAS linearizable).", "5 C04"),
 "C05": ("Panic containment contracts of callHandlerWithContext (never exits by panic, panic handler exactly once with the right arguments, Sequential mutex released on the panic path) and the dispatch loop of PublishContext, for every handler list and position.", "5 C05"),
 "C06": ("WaitGroup credit discipline (Add precedes go, exactly one Done per credit on every path), Wait/Shutdown contracts with a one-shot channel invariant; all workloads through M4.", "5 C06"),
 "C07": ("Mutual exclusion: the handler call of a Sequential registration happens with that registration's mutex held (at-call assertion in callHandlerWithContext, lockset bookkeeping, sequential flag immutable, Sequential$1 sets exactly that flag), released on every path including panics, so invocations cannot overlap (M1); every event is still delivered exactly once (C01/C06 clauses). Publish order for Async+Sequential handlers: the property-level obligation (such a delivery is not started as an independent goroutine racing for the mutex) fails on the real code and is a recorded known finding with a deterministic replay.", "5 C07"),
 "C08": ("Hook-count, hook-order, context-threading and cancellation contracts of PublishContext/Publish/callHandlerWithContext for every handler list, hook combination and cancellation point (monotone context oracle).", "5 C08"),
 "C09": ("Option-order independence (every With* option literal and New preserve PersistInv: the context-aware before hook persists), exactly one Append per publish with type name evName(dynType(event)) and data json(event) before any delivery, Append under storeMu; MemoryStore.Append assigns strictly increasing offsets (pad20 lemmas). The decode-yields-published-value clause rests on the assumed json round-trip contract.", "5 C09"),
 "C10": ("Memory store: Append/Read/ReadStream/SaveOffset/LoadOffset against an abstract append-only log (ghost log, posOf, resumable) with the 20-digit padding order lemmas discharged as SMT lemma files. SQLite: parseOffset/formatOffset inverse, scanEvents/streamRows/streamBatch row-to-event contracts over an assumed database/sql Rows contract. SQLite SQL layer: the five statement texts are pinned (prepareStatements), Append/Read/SaveOffset/LoadOffset/ReadStream/streamBatched issue them with the right arguments and map rows to events; what the texts mean is an assumed contract (deps_sql.spec). Durable-streams store: Append sends exactly type/data/RFC3339Nano timestamp, Read maps the chunk to events and its next-offset discipline is checked (a genuine gap is a recorded known finding); HTTP and the server are assumed. Two known findings (sqlite offsets not lexicographically ordered; durable-streams limit truncation).", "5 C10"),
 "C11": ("Replay's paged and streaming loops against the abstract log: nil only after the whole suffix was delivered, otherwise a non-nil error after a gap-free prefix, callback exactly once per event in order, no Append and no handler call (frame); iterator protocol contracts for MemoryStore.ReadStream and SQLite streamRows/streamBatch incl. rows.Err().", "5 C11"),
 "C12": ("SubscribeWithReplay contracts: resume from the loaded offset, load errors returned, catch-up callback saves after the handler and only for matching decodable events, live wrapper saves bus.lastOffset read under storeMu after the handler, never OffsetOldest. One genuine defect is recorded as a known finding (events appended during a streaming catch-up are skipped).", "5 C12"),
 "C13": ("Failure-containment contracts of persistEvent (no panic, error handler exactly once with event/type/non-nil error, no retry, lastOffset only on success, timeout context descends and is cancelled).", "5 C13"),
 "C15": ("EventType/eventTypeNameOf functional contracts (TypeNamer wins, otherwise reflect name), and at-call assertions that persistEvent, SubscribeWithReplay and RegisterUpcast pass exactly evName(typeOf(T)); state messages' EventTypeName constants.", "5 C15"),
 "C16": ("hasCycleDFS against reachability in the upcaster graph (sound when true; when false every newly visited node is closed under edges, which at top level gives no path by the closed-set lemma), wouldCreateCycle == reach(target, source) exactly, register rejects exactly on the four causes and inserts under the same write lock as the check, lock invariant 'graph acyclic' re-established by register (edge-addition lemma), clear, clearType and established by the constructor. The graph lemmas are SMT axioms whose statements are proved in Lean 4/Mathlib (lemmas/lean/GraphReach.lean). Termination: apply's loop and the DFS recursion carry a variant (the number of types that have an upcaster and are not yet marked), proved to decrease at every back edge / recursive call and to be bounded below; the set of types with an upcaster is finite by a lock invariant (established by the constructor, re-proved by register/clear/clearType), finite-set cardinality axioms proved in Lean (lemmas/lean/FiniteMeasure.lean). User upcast functions are assumed to return.", "5 C16"),
 "C17": ("upcastRegistry.apply against the recursive chain specification (chainD/chainT/chainOK with first-registered upcaster), failure returns the original, ReplayWithUpcast callback passes composed data/type with offset and timestamp unchanged and calls the error handler once, typed upcaster closure = json(f(unjson(data))) with a fresh decode target.", "5 C17"),
 "C18": ("Materializer fold: Apply/applyChange/applyControl/typedCollectionApplier contracts over the Store[T] map laws (Set/Delete/Clear/Get as map update with frame), CompositeKey injectivity lemma, lastOffset updated exactly on success; the two-session clause follows from the per-event step contract by M7.", "5 C18"),
 "C19": ("Rejection half: Apply never panics on arbitrary bytes (no-panic obligations of the whole Apply call tree), and an event that cannot be applied returns an error with collections and lastOffset unchanged (frame postconditions). Round-trip half: the five helper constructors and newChangeMessage build a message with exactly the given key, operation and the JSON encodings of value and old value (separate encodings, fresh message); that decoding an encoding yields the value again is the assumed json law.", "5 C19"),
 "C20": ("Core half: publish/handler/persist observability callbacks come in matched pairs, in order, with the context returned by the start passed to the complete and to the nested work, error exactly on panic/failure (contracts of PublishContext, callHandlerWithContext, persistEvent). OpenTelemetry half: every On*Start starts exactly one span on a context descending from the one it is given and returns the context carrying it, increments its counter once by 1; every On*Complete ends exactly the span of the context it is given, records the duration once and increments the error counter exactly when err != nil (contracts on the six methods over an assumed OpenTelemetry API contract); pairing across calls follows from the core half by M7.", "5 C20"),
}

NA = {
 "C14": "durability across SIGKILL/reopen is decided by the SQLite engine, WAL, VFS and the kernel; no pre/postcondition on ebu's Go functions expresses or decides it (DESIGN.md section 4, C14)",
}

PENDING = "contracts for this property are still being written; not claimed yet (work in progress, see DESIGN.md)"

props=[json.loads(l)['id'] for l in open('/verif/properties.jsonl')]
checks=[]
for p in props:
    if p in CLAIMS:
        text, ref = CLAIMS[p]
        checks.append({
          "property_id": p,
          "quick_cmd": f"./bin/ebuverify check -p {p} -tier quick",
          "thorough_cmd": f"./bin/ebuverify check -p {p} -tier thorough",
          "evidence_file": f"/verif/evidence/{p}.json",
          "replay_cmd_template": "cat {path}",
          "engine": "ebuverify",
          "level_claimed": {"category": "proof", "text": text, "design_ref": ref},
          "level_note": TRUST,
          "technique": "contract-based deductive verification: weakest-precondition-style symbolic execution of go/ssa with contracts in contracts_verif.go, obligations discharged by z3/cvc5",
        })
na=[{"property_id":p,"reason":NA.get(p,PENDING)} for p in props if p not in CLAIMS]
commits=subprocess.run(["git","-C","/repo","log","--format=%h %s","58b5c5c..HEAD"],capture_output=True,text=True).stdout.strip().split("\n")
hooks=[c.split()[0] for c in commits if c and "verif hooks" in c]
m={"version":1,
 "setup_cmd":"./setup.sh",
 "hooks":{"guard":"verif","enable":"-tags verif (comment-only contracts_verif.go files, read by the verifier; no executable hook code)",
  "baseline_off_cmd":"cd /repo && for m in . otel stores/sqlite stores/durablestream; do (cd $m && GOFLAGS=-mod=mod GOPROXY=off go test -vet=off -count=1 -timeout 25m ./...) || exit 1; done",
  "source_commits":hooks,"add_only":True},
 "engines":[{"name":"ebuverify","path":"engine/","serves_properties":sorted(CLAIMS),"kind_free_text":"contract-based deductive verifier for Go written for this task: symbolic execution over go/ssa (naive form) of /repo's working tree, contracts in contracts_verif.go (build tag verif), obligations discharged by z3 5.1 / z3 4.8 / cvc5"}],
 "checks":checks,
 "notes":"See DESIGN.md. known_findings.json lists genuine defects (fixed ones with their commit, recorded ones as known).",
 "not_applicable":na}
json.dump(m,open('/verif/MANIFEST.json','w'),indent=1)
print("claimed:",sorted(CLAIMS),"hooks:",hooks)
