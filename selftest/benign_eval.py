#!/usr/bin/env python3
"""benign_eval.py <patch>...: applies each behaviour-preserving patch to a scratch copy of /repo's HEAD and
verifies the functions it touches (and their literals) with `ebuverify func`; prints QUIET or ALARM <lines>.
Known findings of the unchanged tree are ignored."""
import sys,os,re,subprocess,tempfile,shutil,json
BIN=os.environ.get('EBU_BIN','/verif/bin/ebuverify-dev')
KNOWN=['C07.order','C12.live.own','C12.live.complete.stream','unlocked.l0','ds.read.nogap']
lst=subprocess.run([BIN,'list'],capture_output=True,text=True).stdout
funcs={}
for l in lst.splitlines():
    m=re.match(r'^(\S+)\s+(.*?)\s+props=',l)
    if m: funcs.setdefault(m.group(1),[]).append(m.group(2).strip())
def ssa_names(hdr):
    m=re.search(r'func \((\w+) (\*?)(\w+)(\[[^\]]*\])?\) (\w+)',hdr)
    if m:
        recv=m.group(3)+(m.group(4) or '')
        recv=re.sub(r'\[.*\]','[T]',recv) if m.group(4) else recv
        return ['(%s%s).%s'%(m.group(2),recv,m.group(5))] 
    m=re.search(r'func (\w+)',hdr)
    return [m.group(1)] if m else []
for pf in sys.argv[1:]:
    tmp=tempfile.mkdtemp(prefix='bn_')
    try:
        subprocess.run('git -C /repo archive HEAD | tar -x -C %s'%tmp,shell=True,check=True)
        r=subprocess.run(['patch','-p1','-s','-i',os.path.abspath(pf)],cwd=tmp,capture_output=True,text=True)
        if r.returncode!=0: print('PATCHFAIL',pf,r.stdout[:200]); continue
        txt=open(pf).read()
        targets=set()
        cur=None
        for l in txt.splitlines():
            m=re.match(r'^\+\+\+ b/(.*)',l)
            if m: cur=m.group(1); continue
            if l.startswith('@@') and cur and cur.endswith('.go'):
                d=os.path.dirname(cur) or '.'
                for n in ssa_names(l):
                    targets.add((d,n))
            # a changed line that is itself a func header
            if (l.startswith('+func ') or l.startswith('-func ') or l.startswith(' func ')) and cur:
                d=os.path.dirname(cur) or '.'
                for n in ssa_names(l[1:]): targets.add((d,n))
        alarms=[]; ran=[]
        for d,n in sorted(targets):
            units=[u for u in funcs.get(d,[]) if u==n or u.startswith(n+'$')]
            for u in units:
                ran.append(u)
                o=subprocess.run([BIN,'func','-d',d,'-f',u],capture_output=True,text=True,env=dict(os.environ,EBU_REPO=tmp,EBU_VERIF='/verif')).stdout
                for l in o.splitlines():
                    if ('FAIL' in l or 'VACUOUS' in l or 'UNSUPPORTED' in l or l.startswith('ERROR')) and not any(k in l for k in KNOWN):
                        alarms.append(u+': '+l.strip()[:150])
        print(('ALARM' if alarms else 'QUIET'),os.path.basename(os.path.dirname(pf))+'/'+os.path.basename(pf),'units=%s'%ran)
        for a in alarms[:6]: print('    ',a)
    finally:
        shutil.rmtree(tmp,ignore_errors=True)
