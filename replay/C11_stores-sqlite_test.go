package sqlite

// Replay driver for C11, sqlite store (injected with `go test -overlay`).

import (
	"encoding/json"
	"errors"
	"testing"
	"time"

	eventbus "github.com/jilio/ebu"
)

// verifRows: a row source that fails at row failAt (iteration error), like a
// cursor whose connection breaks mid-batch.
type verifRows struct {
	n, failAt, pos int
	closed         bool
}

func (r *verifRows) Next() bool {
	if r.pos >= r.n || (r.failAt >= 0 && r.pos >= r.failAt) {
		return false
	}
	r.pos++
	return true
}
func (r *verifRows) Scan(dest ...any) error {
	*(dest[0].(*int64)) = int64(r.pos)
	*(dest[1].(*string)) = "t"
	*(dest[2].(*json.RawMessage)) = json.RawMessage(`{}`)
	*(dest[3].(*time.Time)) = time.Unix(0, 0)
	return nil
}
func (r *verifRows) Err() error {
	if r.failAt >= 0 && r.failAt < r.n && r.pos >= r.failAt {
		return errors.New("verif: iteration failed")
	}
	return nil
}
func (r *verifRows) Close() error { r.closed = true; return nil }

func TestVerifReplayC11(t *testing.T) {
	s := &SQLiteStore{cfg: defaultConfig()}
	for n := 0; n <= 4; n++ {
		for failAt := -1; failAt < n; failAt++ {
			rows := &verifRows{n: n, failAt: failAt}
			var count int
			var iterErr error
			var got []int64
			var yieldedErr error
			batchCount, _, cont := s.streamBatch(rows, &count, &iterErr, func(e *eventbus.StoredEvent, err error) bool {
				if err != nil {
					yieldedErr = err
					return false
				}
				got = append(got, int64(len(got)+1))
				return true
			})
			if failAt >= 0 && cont {
				t.Errorf("n=%d failAt=%d: iteration failed after %d rows but streamBatch reports the batch as complete (cont=true, no error yielded: %v)", n, failAt, batchCount, yieldedErr)
			}
			if failAt < 0 && (!cont || batchCount != n) {
				t.Errorf("n=%d: healthy batch: cont=%v batchCount=%d", n, cont, batchCount)
			}
		}
	}
}
