#!/bin/bash
# agree2.sh <dir> <func> [substr]: every solver on every full query of the function; prints the obligations
# whose fastest solver needs more than 1.5 s or that fewer than two solvers decide within 5 s
cd /verif; out=$(./bin/ebuverify-dev func -d "$1" -f "$2" 2>&1 | grep "queries in" | awk '{print $3}')
ls $out/*/*"${3:-}"*.smt2 | grep -v "qf\|sliced\|cover" | xargs -P 14 -I{} bash -c '
f={}; line=""; min=99; fast=0
for s in "z3-new -T:10" "z3 -T:10" "cvc5 --tlimit=10000 --incremental --strings-exp"; do
  t0=$(date +%s.%N); r=$(timeout 12 $s $f 2>&1 | head -1); t1=$(date +%s.%N); dt=$(echo "$t1 - $t0" | bc)
  [ "$r" = unsat ] && { (( $(echo "$dt < $min" | bc) )) && min=$dt; (( $(echo "$dt < 5" | bc) )) && fast=$((fast+1)); }
  line="$line ${s%% *}:$r:$dt"
done
if (( $(echo "$min > 1.5" | bc) )) || [ $fast -lt 2 ]; then echo "$(basename $f | cut -c1-80) min=$min fast=$fast $line"; fi'
echo "done $(ls $out/*/*.smt2 | grep -v "qf\|sliced\|cover" | wc -l) queries"
