#!/bin/bash
# mutrun.sh <patch> <prop> : apply a selftest patch to /repo, run the property's quick check, undo
cd /repo && git diff --quiet || { echo "/repo not clean"; exit 2; }
patch -p1 -s -i "$1" || exit 2
cd /verif && EBU_EVIDENCE_DIR=/tmp/seed_evidence ./bin/ebuverify check -p $2 2>&1 | grep -E "^VIOLATION|^  obligation|^  unverif|^C[0-9][0-9]:" | cut -c1-300 | head -${3:-12}
cd /repo && git checkout -- . && git status --short | grep -v "^??" | head -3
