package main

// `ebuverify check -p <property>`: regenerate and discharge every obligation
// tagged with the property on /repo's current working tree, write evidence,
// report violations.

import (
	"context"
	"encoding/json"
	"flag"
	"fmt"
	"os"
	"os/exec"
	"path/filepath"
	"sort"
	"strconv"
	"strings"
	"sync"
	"time"
)

type KnownFinding struct {
	Property   string `json:"property"`
	Obligation string `json:"obligation"`
	Status     string `json:"status"` // known | fixed
	WhatFails  string `json:"what_fails"`
	Commit     string `json:"commit,omitempty"`
	Replay     string `json:"replay,omitempty"`
}

type funcSel struct {
	dir  string
	name string
}

func hasProp(ps []string, p string) bool {
	for _, x := range ps {
		if x == p {
			return true
		}
	}
	return false
}

func specServes(fs *FuncSpec, p string) bool {
	if hasProp(fs.Props, p) {
		return true
	}
	all := append(append(append([]*Clause{}, fs.Ensures...), fs.OnPanic...), fs.Asserts...)
	for _, cs := range fs.LoopInv {
		all = append(all, cs...)
	}
	for _, cs := range fs.LoopIter {
		all = append(all, cs...)
	}
	for _, c := range all {
		if hasProp(c.Props, p) {
			return true
		}
	}
	return false
}

type obSummary struct {
	Name      string   `json:"name"`
	Func      string   `json:"func"`
	Kind      string   `json:"kind"`
	Text      string   `json:"text"`
	Pos       string   `json:"pos,omitempty"`
	Instances int      `json:"path_instances"`
	Failing   int      `json:"failing_instances"`
	Verdict   string   `json:"verdict"`
	Solvers   []string `json:"solvers"`
	Seconds   float64  `json:"solver_seconds"`
	worst     *Oblig
	queryFile string
	// thorough tier: the smallest number of solvers that answered unsat for a
	// path instance of this obligation (0 = not applicable: decided by the
	// quantifier-free relaxation, trivially, or by the scan)
	MinAgree int `json:"solvers_agreeing,omitempty"`
}

func explicitKind(kind string) bool {
	return kind == "post" || kind == "cs" || kind == "onpanic" || strings.HasPrefix(kind, "loop") || kind == "go" || kind == "lemma" || kind == "at" || kind == "atomic" || kind == "immutable" || kind == "lockset" || kind == "option" || kind == "chaninv" || kind == "created"
}

func cmdCheck(args []string) int {
	fl := flag.NewFlagSet("check", flag.ExitOnError)
	prop := fl.String("p", "", "property id")
	tier := fl.String("tier", "", "quick|thorough")
	update := fl.Bool("update-expected", false, "rewrite the expected obligation list for this property")
	keep := fl.Bool("keep", false, "keep the query directory")
	fl.Parse(args)
	if *tier == "" {
		*tier = os.Getenv("VERIF_TIER")
	}
	if *tier == "" {
		*tier = "quick"
	}
	seed, _ := strconv.Atoi(os.Getenv("VERIF_SEED"))
	if *prop == "" {
		fmt.Fprintln(os.Stderr, "check: -p required")
		return 2
	}
	start := time.Now()
	P := *prop

	var known []KnownFinding
	if data, err := os.ReadFile(filepath.Join(verifRoot, "known_findings.json")); err == nil {
		if err := json.Unmarshal(data, &known); err != nil {
			fmt.Fprintln(os.Stderr, "known_findings.json:", err)
			return 2
		}
	}

	outDir, _ := os.MkdirTemp("", "ebuverify-"+P+"-")
	if !*keep {
		defer os.RemoveAll(outDir)
	}

	// 1. select functions per package from the contract files
	var sels []funcSel
	for _, d := range pkgDirs {
		db := NewSpecDB()
		pkgFile := filepath.Join(repoRoot, d, "contracts_verif.go")
		for _, f := range specFilesFor(d) {
			if err := db.LoadFile(f); err != nil {
				fmt.Printf("VIOLATION property=%s replay=%s no-failing-input-found\n", P, writeReplay(P, "contracts.parse", map[string]interface{}{"error": err.Error()}))
				return 1
			}
		}
		for _, n := range sortedKeys(db.Funcs) {
			fs := db.Funcs[n]
			if fs.Trusted || !strings.HasPrefix(fs.Pos, pkgFile) {
				continue
			}
			// C03 (race and deadlock freedom) is served by every function under
			// contract: each generates lockset, lock-order and guarded-access obligations
			if specServes(fs, P) || P == "C03" {
				sels = append(sels, funcSel{d, n})
			}
		}
		if _, err := os.Stat(pkgFile); err == nil && (scansServe(db, P) || P == "C03") {
			sels = append(sels, funcSel{d, "package"})
		}
	}
	if len(sels) == 0 {
		fmt.Fprintf(os.Stderr, "check: no function under contract serves %s\n", P)
		return 2
	}

	// 2. verify
	var summaries []*obSummary
	var unverified []string
	assumed := map[string]bool{}
	var funcs []string
	totalPaths := 0
	solverCount := map[string]int{}
	solverSecs := 0.0
	var lemmaNotes []string
	byDir := map[string][]string{}
	var dirOrder []string
	for _, s := range sels {
		if _, ok := byDir[s.dir]; !ok {
			dirOrder = append(dirOrder, s.dir)
		}
		byDir[s.dir] = append(byDir[s.dir], s.name)
	}
	var coverFails []string
	pathsOf := map[string]int{}
	for _, d := range dirOrder {
		e, err := LoadPackage(filepath.Join(repoRoot, d), specFilesFor(d))
		if err != nil {
			fmt.Printf("VIOLATION property=%s replay=%s no-failing-input-found\n", P, writeReplay(P, "load."+sanitize(d), map[string]interface{}{"error": err.Error(), "note": "package does not load or type-check"}))
			return 1
		}
		e.outDir = outDir
		e.timeoutS = 10
		if *tier == "thorough" {
			e.timeoutS = 60
			e.allSolvers = true
		}
		for _, n := range byDir[d] {
			label := n
			if d != "." {
				label = d + ":" + n
			}
			funcs = append(funcs, label)
			var res *UnitResult
			var err error
			if n == "package" {
				res = e.PackageScans()
			} else if e.funcs[n] == nil {
				unverified = append(unverified, label+": function not found in package (renamed or removed?)")
				continue
			} else {
				if *update {
					recordNames(d, n, e.funcs[n])
				}
				res, err = e.VerifyFunc(n)
			}
			if err != nil {
				unverified = append(unverified, label+": "+err.Error())
				continue
			}
			totalPaths += res.Paths
			pathsOf[d+":"+n] = res.Paths
			for _, a := range res.Assumed {
				assumed[a] = true
			}
			for _, a := range res.Inlined {
				funcs = append(funcs, label+" ⊇ "+a+" (helper without a contract of its own, verified inlined)")
			}
			for _, m := range res.Unsupported {
				unverified = append(unverified, label+": "+m)
			}
			// keep only obligations of this property
			var mine []*Oblig
			for _, o := range res.Obligs {
				if hasProp(o.Props, P) {
					mine = append(mine, o)
				}
			}
			res.Obligs = mine
			t0 := time.Now()
			e.DischargeAll(res, res.Axioms, 16)
			if os.Getenv("EBU_VERBOSE") != "" {
				fmt.Fprintf(os.Stderr, "  %-40s %4d instances  %.1fs\n", label, len(mine), time.Since(t0).Seconds())
			}
			summaries = append(summaries, summarizeObligs(res, d, e, outDir)...)
			for _, o := range res.Obligs {
				if o.Res.Solver != "" {
					solverCount[o.Res.Solver]++
				}
				solverSecs += o.Res.Seconds
			}
			// vacuity guards: preconditions, states after contract calls, loop
			// bodies and at least one normal exit must be satisfiable
			coverFails = append(coverFails, evalCovers(res, filepath.Join(outDir, sanitize(res.Func)), e.preludeText(res, res.Axioms))...)
			for _, dbr := range res.DeadAfterCall {
				coverFails = append(coverFails, label+"#cover.branch: "+dbr+" is unreachable although the code tests the result of a call replaced by its contract: the contract (or an invariant assumed with it) contradicts that outcome, everything behind the branch would hold vacuously")
			}
		}
	}
	// thorough tier, second opinion: verify again WITHOUT state merging (every
	// path on its own) and demand the same verdicts.  Functions with many
	// paths are skipped (listed in the evidence).
	var crossNotes []string
	if *tier == "thorough" {
		discharged := map[string]bool{}
		for _, s := range summaries {
			if s.Verdict == "discharged" {
				discharged[s.Name] = true
			}
		}
		for _, d := range dirOrder {
			e, err := LoadPackage(filepath.Join(repoRoot, d), specFilesFor(d))
			if err != nil {
				continue
			}
			e.outDir = filepath.Join(outDir, "nomerge")
			e.timeoutS = 20
			e.noMerge = true
			for _, n := range byDir[d] {
				if n == "package" || e.funcs[n] == nil || pathsOf[d+":"+n] > 400 {
					if n != "package" && e.funcs[n] != nil {
						crossNotes = append(crossNotes, fmt.Sprintf("no-merge cross-check skipped for %s:%s (%d merged paths)", d, n, pathsOf[d+":"+n]))
					}
					continue
				}
				res, err := e.VerifyFunc(n)
				if err != nil {
					continue
				}
				limit := false
				for _, m := range res.Unsupported {
					if strings.Contains(m, "path budget") {
						limit = true
					}
				}
				if limit {
					crossNotes = append(crossNotes, fmt.Sprintf("no-merge cross-check gave up on %s:%s (path limit)", d, n))
					continue
				}
				var mine []*Oblig
				for _, o := range res.Obligs {
					if hasProp(o.Props, P) {
						mine = append(mine, o)
					}
				}
				res.Obligs = mine
				e.DischargeAll(res, res.Axioms, 16)
				nFail := 0
				for _, sm := range summarizeObligs(res, d, e, e.outDir) {
					if sm.Verdict != "discharged" && discharged[sm.Name] {
						nFail++
						sm.Name += " (no-merge cross-check)"
						sm.Text = "discharged with state merging but not path by path: " + sm.Text
						summaries = append(summaries, sm)
					}
				}
				crossNotes = append(crossNotes, fmt.Sprintf("no-merge cross-check of %s:%s: %d paths, %d obligation instances, %d disagreements", d, n, res.Paths, len(mine), nFail))
			}
		}
	}

	// lemma files (SMT) registered for this property
	lemmaSums, lemmaN := runLemmas(P, *tier, outDir)
	summaries = append(summaries, lemmaSums...)
	lemmaNotes = append(lemmaNotes, lemmaN...)

	sort.SliceStable(summaries, func(i, j int) bool { return summaries[i].Name < summaries[j].Name })

	// 3. expected obligation names (vacuity: an explicit obligation must not disappear)
	expFile := filepath.Join(verifRoot, "expected", P+".json")
	var names []string
	for _, s := range summaries {
		if explicitKind(s.Kind) {
			names = append(names, s.Name)
		}
	}
	var missing []string
	if *update {
		saveNamesSnapshot()
		os.MkdirAll(filepath.Dir(expFile), 0o755)
		data, _ := json.MarshalIndent(names, "", " ")
		os.WriteFile(expFile, append(data, '\n'), 0o644)
	} else if data, err := os.ReadFile(expFile); err == nil {
		var exp []string
		json.Unmarshal(data, &exp)
		have := map[string]bool{}
		for _, n := range names {
			have[n] = true
		}
		for _, n := range exp {
			if !have[n] {
				missing = append(missing, n)
			}
		}
	}

	// 4. verdicts
	violations := 0
	knownSeen := []string{}
	discharged, total := 0, 0
	var lines []string
	isKnown := func(name string) *KnownFinding {
		for i := range known {
			if known[i].Property == P && known[i].Obligation == name && known[i].Status == "known" {
				return &known[i]
			}
		}
		return nil
	}
	for _, s := range summaries {
		if s.Verdict == "discharged" {
			total++
			discharged++
			continue
		}
		if kf := isKnown(s.Name); kf != nil {
			lines = append(lines, fmt.Sprintf("KNOWN-FINDING: property=%s %s (%s)", P, kf.WhatFails, s.Name))
			knownSeen = append(knownSeen, s.Name)
			continue
		}
		total++
		violations++
		rp, found := reportViolation(P, s, outDir)
		suffix := ""
		if !found {
			suffix = " no-failing-input-found"
		}
		lines = append(lines, fmt.Sprintf("VIOLATION property=%s replay=%s%s", P, rp, suffix))
		lines = append(lines, fmt.Sprintf("  obligation %s: %s [%s] at %s", s.Name, s.Text, s.Verdict, s.Pos))
	}
	for _, m := range unverified {
		total++
		violations++
		rp := writeReplay(P, "unverified."+sanitize(m), map[string]interface{}{"obligation": "unverified", "reason": m,
			"note": "the function left the verifiable subset or lost its contract; every property depending on it is undecided and reported"})
		lines = append(lines, fmt.Sprintf("VIOLATION property=%s replay=%s no-failing-input-found", P, rp))
		lines = append(lines, "  unverified: "+m)
	}
	for _, m := range missing {
		total++
		violations++
		rp := writeReplay(P, "missing."+sanitize(m), map[string]interface{}{"obligation": m, "reason": "an obligation that is generated on the unchanged tree is no longer generated (the code that carried it is gone)"})
		lines = append(lines, fmt.Sprintf("VIOLATION property=%s replay=%s no-failing-input-found", P, rp))
		lines = append(lines, "  obligation no longer generated: "+m)
	}
	for _, c := range coverFails {
		total++
		violations++
		rp := writeReplay(P, "vacuous."+sanitize(c), map[string]interface{}{"obligation": c, "reason": "vacuity guard: assumptions are unsatisfiable (preconditions, an assumed contract, an invariant or an axiom): obligations behind this point would hold vacuously"})
		lines = append(lines, fmt.Sprintf("VIOLATION property=%s replay=%s no-failing-input-found", P, rp))
		lines = append(lines, "  vacuous: "+c)
	}
	for _, l := range lines {
		fmt.Println(l)
	}

	// thorough tier: sensitivity of this check - the property's mutants must be
	// caught and its benign refactorings must stay quiet (reported in the
	// evidence; a missed mutant is a weakness of the check, not a violation)
	var sensitivity map[string]interface{}
	if *tier == "thorough" && os.Getenv("EBU_NO_SENSITIVITY") == "" {
		if self, err := os.Executable(); err == nil {
			c := exec.Command(self, "selftest", "-p", P)
			c.Env = append(os.Environ(), "EBU_NO_SENSITIVITY=1")
			out, _ := c.CombinedOutput()
			var caught, missed, quiet, alarms []string
			for _, l := range strings.Split(string(out), "\n") {
				f := strings.Fields(l)
				if len(f) < 2 {
					continue
				}
				switch {
				case f[0] == "ok" && strings.Contains(l, "quiet["):
					quiet = append(quiet, f[1])
				case f[0] == "ok":
					caught = append(caught, f[1])
				case f[0] == "MISSED":
					missed = append(missed, f[1])
				case f[0] == "FALSE-ALARM":
					alarms = append(alarms, f[1])
				}
			}
			sensitivity = map[string]interface{}{"mutants_caught": caught, "mutants_missed": missed, "benign_quiet": quiet, "benign_false_alarms": alarms}
			fmt.Printf("%s: sensitivity: %d/%d mutants caught, %d/%d benign changes quiet\n", P, len(caught), len(caught)+len(missed), len(quiet), len(quiet)+len(alarms))
		}
	}

	// 5. evidence
	wall := time.Since(start).Seconds()
	var samples []interface{}
	for i, s := range summaries {
		if i%max(1, len(summaries)/6) == 0 && len(samples) < 8 {
			samples = append(samples, map[string]interface{}{"obligation": s.Name, "statement": s.Text, "path_instances": s.Instances, "verdict": s.Verdict, "solvers": s.Solvers})
		}
	}
	var tb []string
	for _, a := range sortedKeys(assumed) {
		tb = append(tb, a)
	}
	tb = append(tb, "M7: a per-operation contract on abstract state extends to every finite history by induction",
		"engine: the go/ssa (naive form) translation of /repo's working tree and the symbolic executor in /verif/engine are trusted to implement Go semantics for the supported subset (DESIGN.md section 3)",
		"integers are mathematical with explicit range side-conditions on int/int64 arithmetic; strings are SMT strings; byte slices are immutable values")
	tb = append(tb, lemmaNotes...)
	var obl []map[string]interface{}
	var fragile []string
	for _, s := range summaries {
		ent := map[string]interface{}{"name": s.Name, "verdict": s.Verdict, "path_instances": s.Instances, "solvers": s.Solvers, "seconds": s.Seconds}
		if s.MinAgree > 0 {
			ent["solvers_agreeing"] = s.MinAgree
			if s.MinAgree == 1 && s.Verdict == "discharged" {
				fragile = append(fragile, s.Name)
			}
		}
		obl = append(obl, ent)
	}
	ev := map[string]interface{}{
		"property_id": P, "tier": *tier, "seed": seed, "level": "proof", "wall_s": wall, "violations": violations,
		"coverage": map[string]interface{}{
			"obligations": total, "discharged": discharged,
			"checker_cmd":              "./bin/ebuverify check -p " + P + " -tier " + *tier,
			"trusted_base":             tb,
			"samples":                  samples,
			"functions_under_contract": funcs,
			"path_instances":           countInstances(summaries),
			"paths_explored":           totalPaths,
			"by_backend":               solverCount,
			"solver_seconds":           solverSecs,
			"known_findings_seen":      knownSeen,
			"unverified":               unverified,
			"vacuity":                  map[string]interface{}{"requires_covers_unsat": coverFails, "missing_expected_obligations": missing},
			"obligation_list":          obl,
			"single_solver_obligations": fragile,
			"nomerge_cross_check":       crossNotes,
			"sensitivity":               sensitivity,
			"explanation":              "every obligation generated from the contracts of the listed functions on the current working tree, discharged (unsat of assumptions ∧ ¬goal) by the SMT portfolio; an obligation counts as discharged only if every path instance is",
		},
		"assumptions": tb,
	}
	evDir := filepath.Join(verifRoot, "evidence")
	if d := os.Getenv("EBU_EVIDENCE_DIR"); d != "" {
		evDir = d // runs against seeded changes / mutants must not overwrite the evidence of the real tree
	}
	os.MkdirAll(evDir, 0o755)
	data, _ := json.MarshalIndent(ev, "", " ")
	os.WriteFile(filepath.Join(evDir, P+".json"), append(data, '\n'), 0o644)
	fmt.Printf("%s: %d obligations, %d discharged, %d violations, %d known findings, %.1fs\n", P, total, discharged, violations, len(knownSeen), wall)
	if violations > 0 {
		return 1
	}
	return 0
}

func scansServe(db *SpecDB, p string) bool {
	for _, ps := range db.ImmutableProps {
		if hasProp(ps, p) {
			return true
		}
	}
	for _, ps := range db.Atomic {
		if hasProp(ps, p) {
			return true
		}
	}
	if (p == "C09" || p == "C01") && db.Callbacks["Option"] != nil {
		return true
	}
	return p == "C03" && len(db.Guarded) > 0
}

func countInstances(ss []*obSummary) int {
	n := 0
	for _, s := range ss {
		n += s.Instances
	}
	return n
}

func summarizeObligs(res *UnitResult, dir string, e *Engine, outDir string) []*obSummary {
	byName := map[string]*obSummary{}
	var order []string
	for _, o := range res.Obligs {
		name := o.Name
		if dir != "." {
			name = dir + ":" + name
		}
		s, ok := byName[name]
		if !ok {
			s = &obSummary{Name: name, Func: o.Func, Kind: kindOf(o.Name), Text: o.Text, Pos: o.Pos, Verdict: "discharged"}
			byName[name] = s
			order = append(order, name)
		}
		s.Instances++
		s.Seconds += o.Res.Seconds
		if len(o.Res.All) > 1 {
			n := 0
			for _, v := range o.Res.All {
				if v == "unsat" {
					n++
				}
			}
			if s.MinAgree == 0 || n < s.MinAgree {
				s.MinAgree = n
			}
		}
		if o.Res.Solver != "" && !containsStr(s.Solvers, o.Res.Solver) {
			s.Solvers = append(s.Solvers, o.Res.Solver)
		}
		if o.Res.Verdict != "unsat" {
			s.Failing++
			if s.worst == nil || (o.Res.Verdict == "sat" && s.worst.Res.Verdict != "sat") {
				s.worst = o
				s.Verdict = o.Res.Verdict
				s.Pos = o.Pos
				s.queryFile = filepath.Join(outDir, sanitize(res.Func), sanitize(fmt.Sprintf("%s@%d", o.Name, o.Path))+".smt2")
			}
		}
	}
	var out []*obSummary
	for _, n := range order {
		out = append(out, byName[n])
	}
	return out
}

func kindOf(name string) string {
	i := strings.Index(name, "#")
	rest := name[i+1:]
	k := strings.SplitN(rest, ".", 2)[0]
	return k
}

func containsStr(xs []string, s string) bool {
	for _, x := range xs {
		if x == s {
			return true
		}
	}
	return false
}

func writeReplay(P, name string, content map[string]interface{}) string {
	dir := filepath.Join(verifRoot, "replays", P)
	os.MkdirAll(dir, 0o755)
	path := filepath.Join(dir, sanitize(name)+".json")
	content["property"] = P
	data, _ := json.MarshalIndent(content, "", " ")
	os.WriteFile(path, append(data, '\n'), 0o644)
	return path
}

// reportViolation writes the replay file of a failed obligation and tries the
// property's replay driver against the real code.
func reportViolation(P string, s *obSummary, outDir string) (string, bool) {
	content := map[string]interface{}{
		"obligation": s.Name, "function": s.Func, "statement": s.Text, "position": s.Pos,
		"verdict": s.Verdict, "failing_path_instances": s.Failing, "path_instances": s.Instances,
	}
	if s.worst != nil {
		content["solver"] = s.worst.Res.Solver
		content["solver_answers"] = s.worst.Res.All
		out := s.worst.Res.Output
		if len(out) > 6000 {
			out = out[:6000] + "\n...(truncated)"
		}
		content["solver_output"] = out
		content["path"] = s.worst.Trace
		if s.queryFile != "" {
			dst := filepath.Join(verifRoot, "replays", P, sanitize(s.Name)+".smt2")
			os.MkdirAll(filepath.Dir(dst), 0o755)
			if data, err := os.ReadFile(s.queryFile); err == nil {
				os.WriteFile(dst, data, 0o644)
				content["query"] = dst
			}
		}
	}
	found := false
	if res := runReplayDriver(P, s); res != nil {
		content["replay_driver"] = res
		if f, ok := res["failing_input_found"].(bool); ok && f {
			found = true
		}
	}
	if !found {
		// scenario corpus of the property (concrete scenarios that pass on the unchanged tree):
		// run once per check, shared by all violated obligations of this run
		if sc := runScenarios(P); sc != nil {
			content["scenario_corpus"] = sc
			if f, ok := sc["failing_input_found"].(bool); ok && f {
				found = true
			}
		}
	}
	return writeReplay(P, s.Name, content), found
}

var scenarioCache = map[string]map[string]interface{}{}
var scenarioMu sync.Mutex

// runScenarios injects every /verif/replay/scenarios/<P>__*__<pkgtag>_test.go into its package
// (go test -overlay, nothing is written to /repo) and runs its TestVerifReplay<P>* tests.  A
// failing scenario is a concrete input on which the real code violates the property; it is
// evidence for the property as a whole, not for one particular obligation.
func runScenarios(P string) map[string]interface{} {
	scenarioMu.Lock()
	defer scenarioMu.Unlock()
	if r, ok := scenarioCache[P]; ok {
		return r
	}
	files, _ := filepath.Glob(filepath.Join(verifRoot, "replay", "scenarios", P+"__*_test.go"))
	if len(files) == 0 {
		scenarioCache[P] = nil
		return nil
	}
	sort.Strings(files)
	type one struct {
		file, out string
		failed    bool
	}
	results := make([]one, len(files))
	var wg sync.WaitGroup
	sem := make(chan struct{}, 6)
	for i, f := range files {
		wg.Add(1)
		sem <- struct{}{}
		go func(i int, f string) {
			defer wg.Done()
			defer func() { <-sem }()
			parts := strings.Split(strings.TrimSuffix(filepath.Base(f), "_test.go"), "__")
			pkgDir := "."
			if len(parts) == 3 && parts[2] != "root" {
				pkgDir = strings.ReplaceAll(parts[2], "-", "/")
			}
			target := filepath.Join(repoRoot, pkgDir, "zz_verif_scenario_test.go")
			tmp, _ := os.CreateTemp("", "overlay-*.json")
			data, _ := json.Marshal(map[string]interface{}{"Replace": map[string]string{target: f}})
			tmp.Write(data)
			tmp.Close()
			defer os.Remove(tmp.Name())
			cmd := exec.Command("go", "test", "-overlay", tmp.Name(), "-vet=off", "-count=1", "-timeout", "120s", "-run", "^TestVerifReplay"+P, ".")
			cmd.Dir = filepath.Join(repoRoot, pkgDir)
			cmd.Env = append(os.Environ(), "GOFLAGS=-mod=mod", "GOPROXY=off", "GOTOOLCHAIN=auto")
			out, err := cmd.CombinedOutput()
			o := string(out)
			if len(o) > 1500 {
				o = o[:1500] + "\n...(truncated)"
			}
			results[i] = one{filepath.Base(f), o, err != nil && (strings.Contains(o, "--- FAIL") || strings.Contains(o, "panic: test timed out"))}
		}(i, f)
	}
	wg.Wait()
	var failing []map[string]string
	passed := 0
	for _, r := range results {
		if r.failed {
			failing = append(failing, map[string]string{"scenario": r.file, "output": r.out})
		} else {
			passed++
		}
	}
	res := map[string]interface{}{
		"failing_input_found": len(failing) > 0, "scenarios_run": len(files), "scenarios_passed": passed, "failing": failing,
		"note": "scenario corpus of property " + P + " (/verif/replay/scenarios, each passes on the unchanged tree), run against the real code with go test -overlay; a failing scenario is a concrete failing input for the property as a whole",
	}
	scenarioCache[P] = res
	return res
}

// runReplayDriver runs /verif/replay/<P>_replay_test.go (if present) inside the
// package under test with `go test -overlay`, without writing to /repo.
func runReplayDriver(P string, s *obSummary) map[string]interface{} {
	matches, _ := filepath.Glob(filepath.Join(verifRoot, "replay", P+"_*_test.go"))
	if len(matches) == 0 {
		return nil
	}
	res := map[string]interface{}{}
	found := false
	var outputs []string
	for _, drv := range matches {
		// file name: <P>_<pkgdir with / as ->_test.go, e.g. C13_root_test.go, C10_stores-sqlite_test.go
		base := strings.TrimSuffix(filepath.Base(drv), "_test.go")
		pkgTag := strings.TrimPrefix(base, P+"_")
		pkgDir := "."
		if pkgTag != "root" {
			pkgDir = strings.ReplaceAll(pkgTag, "-", "/")
		}
		target := filepath.Join(repoRoot, pkgDir, "zz_verif_replay_"+P+"_test.go")
		ov := map[string]interface{}{"Replace": map[string]string{target: drv}}
		tmp, _ := os.CreateTemp("", "overlay-*.json")
		data, _ := json.Marshal(ov)
		tmp.Write(data)
		tmp.Close()
		defer os.Remove(tmp.Name())
		cmd := exec.Command("go", "test", "-overlay", tmp.Name(), "-vet=off", "-count=1", "-timeout", "120s", "-run", "^TestVerifReplay"+P, ".")
		cmd.Dir = filepath.Join(repoRoot, pkgDir)
		cmd.Env = append(os.Environ(), "GOFLAGS=-mod=mod", "GOPROXY=off", "GOTOOLCHAIN=auto", "VERIF_OBLIGATION="+s.Name)
		out, err := cmd.CombinedOutput()
		o := string(out)
		if len(o) > 4000 {
			o = o[:4000] + "\n...(truncated)"
		}
		outputs = append(outputs, fmt.Sprintf("$ (cd %s && go test -overlay <%s> -run ^TestVerifReplay%s .)\n%s", cmd.Dir, filepath.Base(drv), P, o))
		if err != nil && strings.Contains(string(out), "--- FAIL") {
			found = true
		}
	}
	res["failing_input_found"] = found
	res["output"] = outputs
	res["note"] = "the replay driver exercises the property statement on concrete scenarios against the real code; a FAIL is a failing input"
	return res
}

// ------------------------------------------------------------------ lemmas

// runLemmas discharges the standalone SMT lemma files registered for a
// property: /verif/lemmas/<P>.*.smt2 — each must be unsat.
func runLemmas(P, tier, outDir string) ([]*obSummary, []string) {
	files, _ := filepath.Glob(filepath.Join(verifRoot, "lemmas", P+".*.smt2"))
	sort.Strings(files)
	var out []*obSummary
	var notes []string
	for _, f := range files {
		name := "lemma#" + strings.TrimSuffix(filepath.Base(f), ".smt2")
		t := 20
		if tier == "thorough" {
			t = 60
		}
		r := solveFile(f, t, tier == "thorough")
		s := &obSummary{Name: name, Func: "lemma", Kind: "lemma", Text: firstComment(f), Instances: 1, Verdict: "discharged", Solvers: []string{r.Solver}, Seconds: r.Seconds}
		if r.Verdict != "unsat" {
			s.Verdict = r.Verdict
			s.Failing = 1
			s.worst = &Oblig{Name: name, Res: r}
			s.queryFile = f
		}
		out = append(out, s)
	}
	// thorough tier: the Lean proofs behind the SMT axioms of this property are re-checked
	// (/verif/lemmas/lean/*.lean, listed per property in leanLemmas); each file is one obligation
	if tier == "thorough" {
		for _, lf := range leanLemmas[P] {
			f := filepath.Join(verifRoot, "lemmas", "lean", lf)
			name := "lemma#lean." + strings.TrimSuffix(lf, ".lean")
			t0 := time.Now()
			ctx, cancel := context.WithTimeout(context.Background(), 10*time.Minute)
			outb, err := exec.CommandContext(ctx, "lean", f).CombinedOutput()
			cancel()
			s := &obSummary{Name: name, Func: "lemma", Kind: "lemma", Text: "Lean 4 + Mathlib accept every theorem of " + lf + " (the statements behind the prelude axioms)", Instances: 1, Verdict: "discharged", Solvers: []string{"lean"}, Seconds: time.Since(t0).Seconds()}
			if err != nil || strings.Contains(string(outb), "error") || strings.Contains(string(outb), "sorry") {
				s.Verdict = "unknown"
				s.Failing = 1
				msg := string(outb)
				if len(msg) > 2000 {
					msg = msg[:2000]
				}
				s.worst = &Oblig{Name: name, Res: SolverResult{Verdict: "unknown", Solver: "lean", Output: msg}}
				s.queryFile = f
			}
			out = append(out, s)
			notes = append(notes, "Lean-checked in this run: "+lf)
		}
	}
	return out, notes
}

// leanLemmas: the Lean files whose theorems are used as SMT axioms by a property's contracts
var leanLemmas = map[string][]string{"C16": {"GraphReach.lean", "FiniteMeasure.lean"}}

func firstComment(file string) string {
	data, err := os.ReadFile(file)
	if err != nil {
		return ""
	}
	for _, l := range strings.Split(string(data), "\n") {
		if strings.HasPrefix(l, ";") {
			return strings.TrimSpace(strings.TrimLeft(l, "; "))
		}
	}
	return ""
}

// cmdSelftest: the must-fail corpus.  Every /verif/selftest/mutants/*.patch is
// applied to a scratch copy of /repo (outside /repo and /verif, removed
// afterwards); the property check must then report every obligation listed in
// the patch header (# expect: ...) as violated.
func cmdSelftest(args []string) int {
	fl := flag.NewFlagSet("selftest", flag.ExitOnError)
	only := fl.String("m", "", "run only mutants whose file name contains this")
	onlyProp := fl.String("p", "", "run only the mutants (and benign patches) of this property, and only its check")
	fl.Parse(args)
	files, _ := filepath.Glob(filepath.Join(verifRoot, "selftest", "mutants", "*.patch"))
	benign, _ := filepath.Glob(filepath.Join(verifRoot, "selftest", "benign", "*.patch"))
	files = append(files, benign...)
	sort.Strings(files)
	self, _ := os.Executable()
	bad := 0
	var mu sync.Mutex
	var wg sync.WaitGroup
	sem := make(chan struct{}, 4)
	for _, pf := range files {
		if *only != "" && !strings.Contains(filepath.Base(pf), *only) {
			continue
		}
		wg.Add(1)
		sem <- struct{}{}
		go func(pf string) {
			defer wg.Done()
			defer func() { <-sem }()
			data, _ := os.ReadFile(pf)
			var props, expects []string
			isBenign := strings.Contains(pf, string(filepath.Separator)+"benign"+string(filepath.Separator))
			for _, l := range strings.Split(string(data), "\n") {
				if strings.HasPrefix(l, "# property:") {
					props = append(props, strings.Fields(strings.TrimPrefix(l, "# property:"))...)
				}
				if strings.HasPrefix(l, "# expect:") {
					expects = append(expects, strings.TrimSpace(strings.TrimPrefix(l, "# expect:")))
				}
			}
			if *onlyProp != "" {
				if !hasProp(props, *onlyProp) {
					return
				}
				props = []string{*onlyProp}
			}
			scratch, _ := os.MkdirTemp("", "ebu-selftest-")
			tmpVerif, _ := os.MkdirTemp("", "ebu-selftest-verif-")
			run := func(dir string, name string, a ...string) (string, error) {
				c := exec.Command(name, a...)
				c.Dir = dir
				c.Env = append(os.Environ(), "GOFLAGS=-mod=mod", "GOPROXY=off", "GOTOOLCHAIN=auto")
				out, err := c.CombinedOutput()
				return string(out), err
			}
			run("/", "rsync", "-a", "--exclude", ".git", repoRoot+"/", scratch+"/")
			for _, d := range []string{"contracts", "expected", "lemmas", "replay"} {
				run("/", "rsync", "-a", filepath.Join(verifRoot, d), tmpVerif+"/")
			}
			run("/", "cp", filepath.Join(verifRoot, "known_findings.json"), tmpVerif+"/")
			status := "ok"
			detail := ""
			if out, err := run(scratch, "patch", "-p1", "-i", pf); err != nil {
				status, detail = "PATCH-FAILED", out
			} else if out, err := buildAll(run, scratch); err != nil {
				status, detail = "BUILD-FAILED", out
			} else if isBenign {
				// a harmless change: every listed property check must stay quiet
				for _, p := range props {
					c := exec.Command(self, "check", "-p", p)
					c.Env = append(os.Environ(), "EBU_REPO="+scratch, "EBU_VERIF="+tmpVerif)
					out, _ := c.CombinedOutput()
					if strings.Contains(string(out), "VIOLATION") {
						status = "FALSE-ALARM"
						for _, l := range strings.Split(string(out), "\n") {
							if strings.HasPrefix(l, "  obligation") || strings.HasPrefix(l, "  unverified") {
								detail += " [" + p + "]" + strings.TrimSpace(l)[:min(len(strings.TrimSpace(l)), 120)]
							}
						}
					} else {
						detail += " quiet[" + p + "]"
					}
				}
			} else {
				for _, p := range props {
					c := exec.Command(self, "check", "-p", p)
					c.Env = append(os.Environ(), "EBU_REPO="+scratch, "EBU_VERIF="+tmpVerif)
					out, _ := c.CombinedOutput()
					for _, e := range expects {
						if !strings.Contains(string(out), "obligation "+e+":") && !strings.Contains(string(out), "no longer generated: "+e) {
							// an expectation may belong to another property of this mutant
							continue
						}
						detail += " caught[" + p + "]:" + e
					}
				}
				for _, e := range expects {
					if !strings.Contains(detail, ":"+e) {
						status = "MISSED"
						detail += " NOT-CAUGHT:" + e
					}
				}
			}
			mu.Lock()
			if status != "ok" {
				bad++
			}
			fmt.Printf("%-12s %s %s\n", status, filepath.Base(pf), detail)
			mu.Unlock()
			os.RemoveAll(scratch)
			os.RemoveAll(tmpVerif)
		}(pf)
	}
	wg.Wait()
	if bad > 0 {
		return 1
	}
	return 0
}

// buildAll compiles every module of the scratch copy (a mutant must compile).
func buildAll(run func(dir string, name string, a ...string) (string, error), scratch string) (string, error) {
	for _, m := range []string{".", "otel", "stores/sqlite", "stores/durablestream"} {
		if out, err := run(filepath.Join(scratch, m), "go", "build", "./..."); err != nil {
			return m + ": " + out, err
		}
	}
	return "", nil
}

// coverUnsat: true iff the assumptions of a cover are definitely unsatisfiable.
// The FULL query (with every quantified axiom) is used: an inconsistent axiom
// or precondition makes everything vacuously true, and only the full query can
// show it.  Only a definite `unsat` counts.
// evalCovers runs the reachability checks of one unit in parallel and returns
// the names of those that are contradictory.
func evalCovers(res *UnitResult, dir, decls string) []string {
	unsat := make([]bool, len(res.Covers))
	var wg sync.WaitGroup
	sem := make(chan struct{}, 16)
	for i, c := range res.Covers {
		wg.Add(1)
		sem <- struct{}{}
		go func(i int, c *Oblig) {
			defer wg.Done()
			defer func() { <-sem }()
			unsat[i] = coverUnsat(dir, c, decls)
		}(i, c)
	}
	wg.Wait()
	var bad []string
	exits, exitsUnsat := 0, 0
	for i, c := range res.Covers {
		if c.Group == "exit" {
			exits++
			if unsat[i] {
				exitsUnsat++
			}
			continue
		}
		if unsat[i] {
			bad = append(bad, c.Name)
		}
	}
	if exits > 0 && exits == exitsUnsat {
		bad = append(bad, res.Func+"#cover.exit (no normal return is reachable)")
	}
	return bad
}

func coverUnsat(dir string, c *Oblig, decls string) bool {
	os.MkdirAll(dir, 0o755)
	var b strings.Builder
	b.WriteString(smtHeader)
	b.WriteString(decls)
	b.WriteByte('\n')
	for _, a := range c.Assume {
		fmt.Fprintf(&b, "(assert %s)\n", a.S)
	}
	b.WriteString("(check-sat)\n")
	f2 := filepath.Join(dir, sanitize(c.Name)+".coverfull.smt2")
	os.WriteFile(f2, []byte(b.String()), 0o644)
	r := solveFile(f2, 2, false)
	return r.Verdict == "unsat"
}
