package main

// Symbolic state: values, pointers, cells, heaps, frames.

import (
	"fmt"
	"go/types"
	"strings"

	"golang.org/x/tools/go/ssa"
)

// Value is an engine-level value: T (SMT term), *Ptr, *Closure, Tuple,
// *FuncVal, *SliceLit, *RangeIter.
type Value interface{}

type Cell struct {
	name     string
	typ      types.Type
	id       int
	promoted *T // when a struct cell was promoted to a heap object
}

type ArrLit struct {
	elems []Value
	etyp  types.Type
}

type SliceLit struct{ lit *ArrLit }

const (
	pCell = iota
	pField
	pElem
	pDeref
	pArrLit
	pGlobal
)

// Ptr is an engine-level pointer.
type Ptr struct {
	kind   int
	cell   *Cell
	base   T          // object ref (pField), backing array ref (pElem), pointer value (pDeref)
	styp   types.Type // struct type owning the field (pField)
	field  int
	idx    T // pElem: absolute index into the backing array
	sl     T // pElem: the slice indexed (when known)
	rel    T // pElem: index relative to the slice
	lit    *ArrLit
	litIdx int
	global string
	rtyp   types.Type // type of the root location
	path   []pstep    // projections below the root
	typ    types.Type // type of the pointee
}

type pstep struct {
	field int // struct field index, or -1 for array index
	idx   T
	styp  types.Type // type being projected
}

func (p *Ptr) String() string {
	switch p.kind {
	case pCell:
		return fmt.Sprintf("&cell(%s#%d)%v", p.cell.name, p.cell.id, p.path)
	case pField:
		return fmt.Sprintf("&(%s).%s#%d%v", p.base.S, structName(p.styp), p.field, p.path)
	case pElem:
		return fmt.Sprintf("&elem(%s)[%s]", p.base.S, p.idx.S)
	case pDeref:
		return fmt.Sprintf("&deref(%s)", p.base.S)
	case pArrLit:
		return fmt.Sprintf("&arrlit[%d]", p.litIdx)
	case pGlobal:
		return "&global " + p.global
	}
	return "&?"
}

type Closure struct {
	fn    *ssa.Function
	binds []Value
	id    T // lowered identity, if any
}

type FuncVal struct{ fn *ssa.Function }

type Tuple []Value

type RangeIter struct {
	m    T
	kt   types.Type
	vt   types.Type
	seen *Cell // ghost cell holding (Array K Bool)
}

type Deferred struct {
	call   *ssa.CallCommon
	callee Value
	args   []Value
	instr  ssa.Instruction
}

type Frame struct {
	fn     *ssa.Function
	regs   map[ssa.Value]Value
	defers []Deferred
	parent *Frame
	named  map[string]*Cell // source name -> most recent cell
	resultAllocs map[*ssa.Alloc][]string
	resultNames  map[string]bool // synthetic names (err, result, resultK) bound to anonymous results
	depth  int
}

func (f *Frame) clone() *Frame {
	if f == nil {
		return nil
	}
	n := &Frame{fn: f.fn, regs: make(map[ssa.Value]Value, len(f.regs)+8), parent: f.parent.clone(), depth: f.depth, resultAllocs: f.resultAllocs, resultNames: f.resultNames}
	for k, v := range f.regs {
		n.regs[k] = v
	}
	n.defers = append([]Deferred(nil), f.defers...)
	n.named = make(map[string]*Cell, len(f.named))
	for k, v := range f.named {
		n.named[k] = v
	}
	return n
}

type stopPoint struct {
	block *ssa.BasicBlock
	depth int
}

type LockHeld struct {
	key   string // canonical pointer description
	mode  int    // 1 = read, 2 = write
	name  string // "Struct.field"
	level int
	base  T
}

type Snapshot struct {
	heaps map[string]T
	cells map[*Cell]Value
	epoch int
	cnt   map[string]T
	named map[string]*Cell
	ctxDone map[string]T
}

type privRef struct {
	ref  T
	kind string // obj:<Struct> | arr:<sort> | map:<K>:<V>
	// heldIn: the private memory cell this reference has been stored into (and into nothing
	// else): the reference stays private as long as that cell does and no value loaded from
	// the cell has escaped
	heldIn string
}

type LoopCtx struct {
	loop       *Loop
	head       *Snapshot // state right after havoc+assume at the header
	pre        *Snapshot // state right before the havoc at loop entry
	headTokens map[string]int
	headLocks  int
	headCreated int
}

type createdObj struct {
	ref   T
	sname string
	at    ssa.Instruction
}

type State struct {
	pc       []T
	created  []createdObj // structs allocated by this activation (lock invariants are checked for them)
	promo    map[*Cell]bool // local variables living in the heap in this state
	litCache map[*SliceLit]T
	cells    map[*Cell]Value
	heaps    map[string]T
	epoch    int
	frame    *Frame
	cnt      map[string]T
	lastArgs map[string][]Value
	lastRes  map[string]Value
	calleeGhosts map[string]map[string]T
	lastCalleeGhost map[string]T
	locks    []LockHeld
	acq      *Snapshot
	entry    *Snapshot
	private  []privRef
	ctxDone  map[string]T
	panicking bool
	panicVal T
	loops    []*LoopCtx
	trace    []string
	tokens   map[string]int // WaitGroup credits held by this activation
	notes    []string
	marks    map[string]*Snapshot
	lastFrame *Frame
	stopAt   []stopPoint
}

func (s *State) clone() *State {
	n := &State{epoch: s.epoch, frame: s.frame.clone(), acq: s.acq, entry: s.entry, panicking: s.panicking, panicVal: s.panicVal}
	n.pc = append([]T(nil), s.pc...)
	n.cells = make(map[*Cell]Value, len(s.cells)+8)
	for k, v := range s.cells {
		n.cells[k] = v
	}
	n.heaps = make(map[string]T, len(s.heaps)+8)
	for k, v := range s.heaps {
		n.heaps[k] = v
	}
	n.cnt = make(map[string]T, len(s.cnt))
	for k, v := range s.cnt {
		n.cnt[k] = v
	}
	n.lastArgs = make(map[string][]Value, len(s.lastArgs))
	for k, v := range s.lastArgs {
		n.lastArgs[k] = v
	}
	n.calleeGhosts = make(map[string]map[string]T, len(s.calleeGhosts))
	for k, v := range s.calleeGhosts {
		n.calleeGhosts[k] = v
	}
	n.lastCalleeGhost = s.lastCalleeGhost
	n.lastRes = make(map[string]Value, len(s.lastRes))
	for k, v := range s.lastRes {
		n.lastRes[k] = v
	}
	n.locks = append([]LockHeld(nil), s.locks...)
	n.private = append([]privRef(nil), s.private...)
	n.ctxDone = make(map[string]T, len(s.ctxDone))
	for k, v := range s.ctxDone {
		n.ctxDone[k] = v
	}
	n.loops = append([]*LoopCtx(nil), s.loops...)
	n.trace = append([]string(nil), s.trace...)
	n.tokens = make(map[string]int, len(s.tokens))
	for k, v := range s.tokens {
		n.tokens[k] = v
	}
	n.notes = append([]string(nil), s.notes...)
	n.promo = make(map[*Cell]bool, len(s.promo))
	for k, v := range s.promo {
		n.promo[k] = v
	}
	n.created = append([]createdObj(nil), s.created...)
	n.litCache = make(map[*SliceLit]T, len(s.litCache))
	for k, v := range s.litCache {
		n.litCache[k] = v
	}
	n.lastFrame = s.lastFrame
	n.stopAt = append([]stopPoint(nil), s.stopAt...)
	n.marks = make(map[string]*Snapshot, len(s.marks))
	for k, v := range s.marks {
		n.marks[k] = v
	}
	return n
}

func (s *State) snapshot() *Snapshot {
	sn := &Snapshot{epoch: s.epoch, heaps: make(map[string]T, len(s.heaps)), cells: make(map[*Cell]Value, len(s.cells)), cnt: make(map[string]T, len(s.cnt)), named: map[string]*Cell{}}
	for k, v := range s.heaps {
		sn.heaps[k] = v
	}
	for k, v := range s.cells {
		sn.cells[k] = v
	}
	for k, v := range s.cnt {
		sn.cnt[k] = v
	}
	if s.frame != nil {
		for k, v := range s.frame.named {
			sn.named[k] = v
		}
	}
	sn.ctxDone = make(map[string]T, len(s.ctxDone))
	for k, v := range s.ctxDone {
		sn.ctxDone[k] = v
	}
	return sn
}

func (s *State) assume(t T) {
	if t.S != "true" {
		s.pc = append(s.pc, t)
	}
}

// definitional assumptions only constrain symbols that are fresh at the point
// where they are made (definitions of named terms, facts describing a fresh
// heap after append/copy/havoc, allocation of a fresh reference).  They may be
// hoisted out of a disjunction when states are merged.
var definitional = map[string]bool{}

func (s *State) assumeDef(t T) {
	if t.S != "true" {
		s.pc = append(s.pc, t)
		definitional[t.S] = true
		// (= name term): remember the definition of the name
		if as := ctorArgs(t.S, "="); len(as) == 2 && !strings.HasPrefix(as[0], "(") {
			termDefs[as[0]] = as[1]
		}
	}
}

// ---------------------------------------------------------------- heaps

type heapView struct {
	heaps map[string]T
	epoch int
}

func (s *State) view() heapView      { return heapView{s.heaps, s.epoch} }
func (sn *Snapshot) view() heapView { return heapView{sn.heaps, sn.epoch} }

func (u *Unit) heapGet(v heapView, name string, sort Sort) T {
	u.noteHeap(name, sort)
	if t, ok := v.heaps[name]; ok {
		return t
	}
	ep := v.epoch
	if u.entryEpoch > 0 && strings.HasPrefix(name, "F!") && u.immutableHeap(name) {
		// a heap that re-entrant code cannot change and that this path has not touched yet
		// still has its value from the function's entry, whatever was havocked in between
		ep = u.entryEpoch
	}
	c := fmt.Sprintf("%s@e%d", name, ep)
	u.decls.Add(c, fmt.Sprintf("(declare-const %s %s)", c, sort))
	return T{c, sort}
}

func (u *Unit) noteHeap(name string, sort Sort) {
	if _, ok := u.heapSorts[name]; !ok {
		u.heapSorts[name] = sort
		u.heapOrder = append(u.heapOrder, name)
	}
}

func (u *Unit) heapSet(s *State, name string, t T) {
	u.noteHeap(name, t.Sort)
	if strings.HasPrefix(t.S, "(") && !strings.HasPrefix(t.S, "((as const") {
		c := u.fresh(name+"@s", t.Sort)
		s.assumeDef(Eq(c, t))
		t = c
	}
	s.heaps[name] = t
}

func (u *Unit) fieldHeapName(styp types.Type, field int) (string, Sort, string) {
	st := styp.Underlying().(*types.Struct)
	f := st.Field(field)
	sn := structName(styp)
	return "F!" + sn + "!" + f.Name(), ArrSort(SInt, u.sortOf(f.Type())), sn + "." + f.Name()
}

func elemHeapName(es Sort) (string, Sort) {
	return "E!" + smtName(string(es)), ArrSort(SInt, ArrSort(SInt, es))
}

func derefHeapName(es Sort) (string, Sort) {
	return "D!" + smtName(string(es)), ArrSort(SInt, es)
}

func mapHeapNames(ks, vs Sort) (string, Sort, string, Sort) {
	base := smtName(string(ks)) + "!" + smtName(string(vs))
	return "MD!" + base, ArrSort(SInt, ArrSort(ks, SBool)), "MV!" + base, ArrSort(SInt, ArrSort(ks, vs))
}

// fresh returns a fresh constant of the given sort.
func (u *Unit) fresh(prefix string, sort Sort) T {
	u.nfresh++
	name := fmt.Sprintf("%s!%d", smtName(prefix), u.nfresh)
	u.decls.Add(name, fmt.Sprintf("(declare-const %s %s)", name, sort))
	return T{name, sort}
}

// freshOfType returns a fresh value of a Go type with its type invariants assumed.
func (u *Unit) freshOfType(s *State, prefix string, t types.Type) T {
	v := u.fresh(prefix, u.sortOf(t))
	u.assumeTypeInv(s, v, t)
	return v
}

func (u *Unit) assumeTypeInv(s *State, v T, t types.Type) {
	switch v.Sort {
	case SSlice:
		s.assume(app(SBool, "wfSlice", v))
		u.assumeAllocated(s, app(SInt, "sarr", v))
	case SInt:
		if b, ok := t.Underlying().(*types.Basic); ok && b.Info()&types.IsInteger != 0 {
			if b.Info()&types.IsUnsigned != 0 {
				s.assume(Le(IntLit(0), v))
			}
			switch b.Kind() {
			case types.Uint32:
				s.assume(Lt(v, T{"4294967296", SInt}))
			case types.Uint8:
				s.assume(Lt(v, IntLit(256)))
			case types.Int, types.Int64:
				s.assume(And(Le(T{"(- 9223372036854775808)", SInt}, v), Le(v, T{"9223372036854775807", SInt})))
			}
		}
	}
}

// newObject allocates a fresh object reference (non-nil, previously unallocated).
func (u *Unit) newRef(s *State, prefix string) T {
	r := u.fresh(prefix, SInt)
	u.allocRef(s, r)
	return r
}

// allocRef: r names an object that is allocated now (it was not before).
func (u *Unit) allocRef(s *State, r T) T {
	al := u.heapGet(s.view(), "alloc", ArrSort(SInt, SBool))
	s.assumeDef(Not(Select(al, r)))
	s.assumeDef(Lt(IntLit(0), r))
	u.heapSet(s, "alloc", Store(al, r, True))
	if len(u.eng.addrTaken) > 0 {
		u.declFtag()
		s.assumeDef(Eq(ftagOf(r), IntLit(0)))
	}
	return r
}

// assumeAllocated records that a loaded reference is an allocated one (or nil).
func (u *Unit) assumeAllocated(s *State, r T) {
	al := u.heapGet(s.view(), "alloc", ArrSort(SInt, SBool))
	s.assume(Or(Eq(r, IntLit(0)), Select(al, r)))
}

func isRefType(t types.Type) bool {
	switch t.Underlying().(type) {
	case *types.Pointer, *types.Map, *types.Chan:
		return true
	}
	return false
}

func mentions(t string, name string) bool {
	i := 0
	for {
		j := strings.Index(t[i:], name)
		if j < 0 {
			return false
		}
		j += i
		end := j + len(name)
		okL := j == 0 || strings.ContainsRune(" ()", rune(t[j-1]))
		okR := end == len(t) || strings.ContainsRune(" ()", rune(t[end]))
		if okL && okR {
			return true
		}
		i = j + 1
	}
}

// escape removes from the private set every reference mentioned in term t.
func (s *State) escape(t T) {
	if len(s.private) == 0 {
		return
	}
	var keep []privRef
	gone := map[string]bool{}
	for _, p := range s.private {
		if !carriesRef(t.S, p.ref.S) && !(p.heldIn != "" && mentionsDeep(t.S, p.heldIn, map[string]bool{})) {
			keep = append(keep, p)
		} else {
			gone[p.ref.S] = true
		}
	}
	// what was held in an escaped cell escapes with it
	for changed := true; changed && len(gone) > 0; {
		changed = false
		var k2 []privRef
		for _, p := range keep {
			if p.heldIn != "" && gone[p.heldIn] {
				gone[p.ref.S] = true
				changed = true
				continue
			}
			k2 = append(k2, p)
		}
		keep = k2
	}
	s.private = keep
}

// holdIn: value t is stored into the private cell `cell`: the private references t carries stay
// private (held in that cell) unless they are already held elsewhere; returns false if the
// store must be treated as an escape.
func (s *State) holdIn(t T, cell string) bool {
	isPriv := false
	for _, p := range s.private {
		if p.ref.S == cell && strings.HasPrefix(p.kind, "deref:") {
			isPriv = true
		}
	}
	if !isPriv {
		return false
	}
	for i, p := range s.private {
		if p.ref.S != cell && carriesRef(t.S, p.ref.S) {
			if p.heldIn != "" && p.heldIn != cell {
				return false
			}
			s.private[i].heldIn = cell
		}
	}
	return true
}

// mentionsDeep: name occurs as a token in t or in the definition of any named term t mentions.
func mentionsDeep(t, name string, seen map[string]bool) bool {
	if mentions(t, name) {
		return true
	}
	for _, tok := range strings.FieldsFunc(t, func(r rune) bool { return r == ' ' || r == '(' || r == ')' }) {
		if seen[tok] {
			continue
		}
		seen[tok] = true
		if d, ok := termDefs[tok]; ok && d != tok {
			if mentionsDeep(d, name, seen) {
				return true
			}
		}
	}
	return false
}

func (c *Cell) elemSort(u *Unit) string {
	if c.typ != nil {
		if st, ok := c.typ.Underlying().(*types.Slice); ok {
			return string(u.sortOf(st.Elem()))
		}
	}
	return "Int"
}

// carriesRef: the value of term t may be (or contain, as a component of a
// slice / interface / struct value) the reference ref.  A term that merely
// reads memory at ref (select ... ref) does not carry it.
// termDefs: named term -> defining term (filled wherever the engine names a term).
var termDefs = map[string]string{}

func carriesRef(t, ref string) bool {
	if t == ref {
		return true
	}
	if !strings.HasPrefix(t, "(") {
		if d, ok := termDefs[t]; ok && d != t {
			return carriesRef(d, ref)
		}
		return false
	}
	sp := strings.IndexByte(t, ' ')
	if sp < 0 {
		return false
	}
	head := t[1:sp]
	if strings.HasPrefix(head, "mk_") || head == "ite" || strings.HasPrefix(head, "box") {
		for _, a := range ctorArgs(t, head) {
			if carriesRef(a, ref) {
				return true
			}
		}
	}
	return false
}
