package eventbus

// Replay driver for C04 (injected with `go test -overlay`, never written to /repo).
// It checks the statement of the property on concrete scenarios against the real code.

import (
	"context"
	"sync/atomic"
	"testing"
)

type verifC04Event struct{ N int }

func TestVerifReplayC04(t *testing.T) {
	for _, async := range []bool{false, true} {
		for _, withFilter := range []bool{false, true} {
			bus := New()
			var runs int32
			opts := []SubscribeOption{Once()}
			if async {
				opts = append(opts, Async())
			}
			if withFilter {
				opts = append(opts, WithFilter(func(e verifC04Event) bool { return e.N > 0 }))
			}
			if err := Subscribe(bus, func(e verifC04Event) { atomic.AddInt32(&runs, 1) }, opts...); err != nil {
				t.Fatal(err)
			}
			// a publish with an already-cancelled context must not use the handler up
			cctx, cancel := context.WithCancel(context.Background())
			cancel()
			PublishContext(bus, cctx, verifC04Event{1})
			bus.Wait()
			if withFilter {
				Publish(bus, verifC04Event{0}) // rejected by the filter: must not use it up either
				bus.Wait()
			}
			if got := atomic.LoadInt32(&runs); got != 0 {
				t.Errorf("async=%v filter=%v: handler ran %d times for a cancelled/filtered publish", async, withFilter, got)
			}
			if HandlerCount[verifC04Event](bus) != 1 {
				t.Errorf("async=%v filter=%v: once handler was retired by a publish it was skipped for (HandlerCount=%d)", async, withFilter, HandlerCount[verifC04Event](bus))
			}
			// eligible publishes: exactly once overall, then retired
			for i := 0; i < 3; i++ {
				Publish(bus, verifC04Event{1})
			}
			bus.Wait()
			if got := atomic.LoadInt32(&runs); got != 1 {
				t.Errorf("async=%v filter=%v: once handler ran %d times over 3 eligible publishes, want 1", async, withFilter, got)
			}
			if HandlerCount[verifC04Event](bus) != 0 {
				t.Errorf("async=%v filter=%v: fired once handler still counted (HandlerCount=%d)", async, withFilter, HandlerCount[verifC04Event](bus))
			}
		}
	}
}
