#!/usr/bin/env python3
"""Automatic mutation run: every single-point mutation (automut) of every function
under contract is verified with `ebuverify func`; a mutant no obligation notices is
then run against the package's tests.  Output: results.jsonl + summary.
  caught        some obligation of the function (or a contracted literal of it) fails
  HOLE          not caught by the verifier but the test suite fails: behaviour changed, contracts silent
  survivor      neither notices (equivalent mutant, or behaviour no property/test pins down)
usage: run.py [-j N] [-only substr] [-dirs d1,d2]"""
import json, os, subprocess, sys, shutil, tempfile, threading, queue, re, argparse, time
ap=argparse.ArgumentParser(); ap.add_argument('-j',type=int,default=5); ap.add_argument('-only',default=''); ap.add_argument('-dirs',default='.,state,stores/sqlite,stores/durablestream,otel'); ap.add_argument('-out',default='/verif/selftest/automut/results.jsonl')
args=ap.parse_args()
REPO=os.environ.get('AUTOMUT_REPO','/repo'); BIN='/verif/bin'
env=dict(os.environ, GOFLAGS='-mod=mod', GOPROXY='off'); env.pop('GOTOOLCHAIN',None)
# functions under contract
funcs={}
out=subprocess.run([BIN+'/ebuverify','list'],capture_output=True,text=True,env=env).stdout
for l in out.splitlines():
    m=re.match(r'^(\S+)\s+(.*?)\s+props=',l)
    if m: funcs.setdefault(m.group(1),[]).append(m.group(2).strip())
moddir={'.':'.','state':'.','stores/sqlite':'stores/sqlite','stores/durablestream':'stores/durablestream','otel':'otel'}
jobs=[]
for d in args.dirs.split(','):
    names=funcs.get(d,[])
    decls=sorted(set(n.split('$')[0] for n in names))
    for f in sorted(os.listdir(os.path.join(REPO,d))):
        if not f.endswith('.go') or f.endswith('_test.go') or f=='contracts_verif.go': continue
        path=os.path.join(REPO,d,f)
        r=subprocess.run([BIN+'/automut',path]+decls,capture_output=True,text=True)
        for l in r.stdout.splitlines():
            mu=json.loads(l); mu['dir']=d; mu['file']=f
            if args.only and not any(o in mu['func'] for o in args.only.split(',')): continue
            mu['units']=[n for n in names if n==mu['func'] or n.startswith(mu['func']+'$')]+['package']
            jobs.append(mu)
print(len(jobs),'mutants',file=sys.stderr)
q=queue.Queue()
for j in jobs: q.put(j)
lock=threading.Lock(); res=[]
def worker(i):
    scratch=tempfile.mkdtemp(prefix='automut-%d-'%i)
    subprocess.run(['rsync','-a','--exclude','.git',REPO+'/',scratch+'/'])
    e=dict(env,EBU_REPO=scratch)
    while True:
        try: mu=q.get_nowait()
        except queue.Empty: break
        path=os.path.join(scratch,mu['dir'],mu['file'])
        orig=open(path,'rb').read()
        new=orig[:mu['start']]+mu['repl'].encode()+orig[mu['end']:]
        open(path,'wb').write(new)
        status='?'; detail=''
        try:
            b=subprocess.run(['go','build','./...'],cwd=os.path.join(scratch,moddir[mu['dir']]),capture_output=True,text=True,env=env)
            if b.returncode!=0:
                status='nocompile'
            else:
                caught=[]
                for unit in mu['units']:
                    r=subprocess.run([BIN+'/ebuverify','func','-d',mu['dir'],'-f',unit],capture_output=True,text=True,env=e,timeout=900)
                    o=r.stdout+r.stderr
                    for l in o.splitlines():
                        if l.startswith('  FAIL') or 'VACUOUS' in l or 'UNSUPPORTED' in l or l.startswith('ERROR') or 'load:' in l:
                            caught.append(l.strip()[:140])
                if caught:
                    status='caught'; detail=caught[0]
                else:
                    t=subprocess.run(['go','test','-vet=off','-count=1','-timeout','180s','./...'],cwd=os.path.join(scratch,moddir[mu['dir']]),capture_output=True,text=True,env=env)
                    if t.returncode!=0:
                        status='HOLE'
                        m=re.findall(r'--- FAIL: (\S+)',t.stdout)
                        detail='tests failing: '+','.join(m[:4])
                    else: status='survivor'
        except subprocess.TimeoutExpired:
            status='timeout'
        finally:
            open(path,'wb').write(orig)
        mu['status']=status; mu['detail']=detail
        with lock:
            res.append(mu)
            with open(args.out,'a') as f: f.write(json.dumps(mu)+'\n')
            print('%-9s %s:%d %s [%s] %s'%(status,mu['file'],mu['line'],mu['func'],mu['kind'],detail[:100]),flush=True)
    shutil.rmtree(scratch,ignore_errors=True)
open(args.out,'w').close()
ths=[threading.Thread(target=worker,args=(i,)) for i in range(args.j)]
[t.start() for t in ths]; [t.join() for t in ths]
from collections import Counter
c=Counter(r['status'] for r in res)
print('SUMMARY',dict(c))
