/-
Graph lemmas behind the axioms `reach.*` and `acyclic.*` of /verif/contracts/prelude.spec
(used by the C16 contracts).  `reach G a b` is the reflexive-transitive closure of the
edge relation `G`; `acyclic G` says no edge lies on a cycle.  Checked by
`lean /verif/lemmas/lean/GraphReach.lean` (Lean 4 + Mathlib, offline).
-/
import Mathlib.Logic.Relation

open Relation

variable {α : Type}

def reach (G : α → α → Prop) : α → α → Prop := ReflTransGen G

def acyclic (G : α → α → Prop) : Prop := ∀ a b, G a b → ¬ reach G b a

/-- reach.refl -/
theorem reach_refl (G : α → α → Prop) (a : α) : reach G a a := ReflTransGen.refl

/-- reach.step -/
theorem reach_step (G : α → α → Prop) {a b c : α} (h : G a b) (r : reach G b c) : reach G a c :=
  ReflTransGen.head h r

/-- reach.closed: a set closed under edges contains everything reachable from its members -/
theorem reach_closed (G : α → α → Prop) (S : α → Prop)
    (hc : ∀ v w, S v → G v w → S w) {a b : α} (ha : S a) (r : reach G a b) : S b := by
  induction r with
  | refl => exact ha
  | tail _ hbc ih => exact hc _ _ ih hbc

/-- reach.mono: a subgraph reaches no more -/
theorem reach_mono {G G' : α → α → Prop} (hs : ∀ a b, G' a b → G a b) {a b : α}
    (r : reach G' a b) : reach G a b := by
  induction r with
  | refl => exact ReflTransGen.refl
  | tail _ hbc ih => exact ReflTransGen.tail ih (hs _ _ hbc)

/-- reach.add: paths of G ∪ {(f,t)} either avoid the new edge or go through it -/
theorem reach_add {G G' : α → α → Prop} {f t : α}
    (hadd : ∀ a b, G' a b ↔ (G a b ∨ (a = f ∧ b = t))) {a b : α} (r : reach G' a b) :
    reach G a b ∨ (reach G a f ∧ reach G t b) := by
  induction r with
  | refl => exact Or.inl ReflTransGen.refl
  | tail _ hbc ih =>
    rcases (hadd _ _).1 hbc with h | ⟨hbf, hct⟩
    · rcases ih with h1 | ⟨h1, h2⟩
      · exact Or.inl (ReflTransGen.tail h1 h)
      · exact Or.inr ⟨h1, ReflTransGen.tail h2 h⟩
    · subst hbf; subst hct
      rcases ih with h1 | ⟨h1, _⟩
      · exact Or.inr ⟨h1, ReflTransGen.refl⟩
      · exact Or.inr ⟨h1, ReflTransGen.refl⟩

/-- acyclic.add: adding f → t keeps the graph acyclic when t does not reach f and f ≠ t -/
theorem acyclic_add {G G' : α → α → Prop} {f t : α}
    (hadd : ∀ a b, G' a b ↔ (G a b ∨ (a = f ∧ b = t)))
    (hac : acyclic G) (hn : ¬ reach G t f) (hne : f ≠ t) : acyclic G' := by
  intro a b hab hba
  rcases (hadd a b).1 hab with h | ⟨haf, hbt⟩
  · -- an old edge a → b, and b reaches a in G'
    rcases reach_add hadd hba with h1 | ⟨h1, h2⟩
    · exact hac a b h h1
    · -- b ⇒ f and t ⇒ a in G, so t ⇒ a → b ⇒ f
      exact hn (ReflTransGen.trans h2 (ReflTransGen.head h h1))
  · subst haf; subst hbt
    rcases reach_add hadd hba with h1 | ⟨_, h2⟩
    · exact hn h1
    · exact hn h2

/-- acyclic.sub: removing edges keeps the graph acyclic -/
theorem acyclic_sub {G G' : α → α → Prop} (hs : ∀ a b, G' a b → G a b) (hac : acyclic G) :
    acyclic G' := by
  intro a b hab hba
  exact hac a b (hs a b hab) (reach_mono hs hba)

/-- acyclic.empty -/
theorem acyclic_empty {G' : α → α → Prop} (he : ∀ a b, ¬ G' a b) : acyclic G' := by
  intro a b hab _
  exact he a b hab
