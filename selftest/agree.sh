#!/bin/bash
# agree.sh <dir> <func> <obligation-substring>: runs every solver on the full queries of the matching obligations
cd /verif; out=$(./bin/ebuverify-dev func -d "$1" -f "$2" 2>&1 | grep "queries in" | awk '{print $3}')
for f in $(ls $out/*/*"$3"*.smt2 | grep -v "qf\|sliced\|cover"); do
  for s in "z3-new -T:20" "z3 -T:20" "cvc5 --tlimit=20000 --incremental --strings-exp"; do
    r=$( { /usr/bin/time -f "%es" timeout 25 $s $f 2>&1; } | grep -v "^(error\|model" | tr '\n' ' ')
    echo "$(basename $f | cut -c1-70) [${s%% *}] $r"
  done
done
