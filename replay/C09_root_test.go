package eventbus

// Replay driver for C09 (injected with `go test -overlay`).

import (
	"context"
	"encoding/json"
	"reflect"
	"testing"
)

type verifC09Event struct {
	ID int `json:"id"`
}

func TestVerifReplayC09(t *testing.T) {
	userHook := func(ctx context.Context, et reflect.Type, ev any) {}
	orders := map[string][]func(s EventStore) []Option{
		"store,beforeCtx": {func(s EventStore) []Option { return []Option{WithStore(s), WithBeforePublishContext(userHook)} }},
		"beforeCtx,store": {func(s EventStore) []Option { return []Option{WithBeforePublishContext(userHook), WithStore(s)} }},
		"store,before,after,obs": {func(s EventStore) []Option {
			return []Option{WithStore(s), WithBeforePublish(func(reflect.Type, any) {}), WithAfterPublishContext(userHook), WithPersistenceTimeout(0)}
		}},
		"store,beforeCtx,beforeCtx": {func(s EventStore) []Option {
			return []Option{WithStore(s), WithBeforePublishContext(userHook), WithBeforePublishContext(userHook)}
		}},
		"store,beforeCtx(nil)": {func(s EventStore) []Option { return []Option{WithStore(s), WithBeforePublishContext(nil)} }},
	}
	for name, mk := range orders {
		store := NewMemoryStore()
		bus := New(mk[0](store)...)
		seenBeforeHandler := -1
		Subscribe(bus, func(e verifC09Event) {
			evs, _, _ := store.Read(context.Background(), OffsetOldest, 0)
			seenBeforeHandler = len(evs)
		})
		for i := 1; i <= 3; i++ {
			Publish(bus, verifC09Event{ID: i})
			if seenBeforeHandler != i {
				t.Errorf("%s: handler of publish %d saw %d records in the store, want %d (record must be readable before delivery)", name, i, seenBeforeHandler, i)
			}
		}
		evs, _, _ := store.Read(context.Background(), OffsetOldest, 0)
		if len(evs) != 3 {
			t.Errorf("%s: 3 publishes produced %d records", name, len(evs))
			continue
		}
		for i, e := range evs {
			var got verifC09Event
			if e.Type != EventType(verifC09Event{}) || json.Unmarshal(e.Data, &got) != nil || got.ID != i+1 {
				t.Errorf("%s: record %d is %s %s", name, i, e.Type, e.Data)
			}
			if i > 0 && !(evs[i-1].Offset < e.Offset) {
				t.Errorf("%s: offsets not strictly increasing: %q then %q", name, evs[i-1].Offset, e.Offset)
			}
		}
	}
}
