; pad20 strings have exactly 20 characters, hence are never the empty string (OffsetOldest): 20 = len implies s != ""
(set-logic ALL)
(declare-const s String)
(assert (= (str.len s) 20))
(assert (= s ""))
(check-sat)
