package eventbus

// Replay driver for C12 (injected with `go test -overlay`).

import (
	"context"
	"errors"
	"os"
	"strings"
	"testing"
	"time"
)

type verifC12Event struct{ N int }

type verifC12FailingLoad struct{ *MemoryStore }

func (s verifC12FailingLoad) LoadOffset(ctx context.Context, id string) (Offset, error) {
	return OffsetOldest, errors.New("verif: load failed")
}

type verifC12FailingAppend struct{ *MemoryStore }

func (s verifC12FailingAppend) Append(ctx context.Context, e *Event) (Offset, error) {
	return "", errors.New("verif: append failed")
}

func TestVerifReplayC12(t *testing.T) {
	ctx := context.Background()
	// history: two events, a subscription that handled both
	store := NewMemoryStore()
	bus := New(WithStore(store))
	Publish(bus, verifC12Event{1})
	Publish(bus, verifC12Event{2})
	var seen []int
	if err := SubscribeWithReplay(ctx, bus, "s", func(e verifC12Event) { seen = append(seen, e.N) }); err != nil {
		t.Fatal(err)
	}
	saved, _ := store.LoadOffset(ctx, "s")
	if len(seen) != 2 || saved == OffsetOldest {
		t.Fatalf("setup: seen=%v saved=%q", seen, saved)
	}
	// (a) a failing LoadOffset must not silently restart from the beginning
	busA := New(WithStore(store), WithSubscriptionStore(verifC12FailingLoad{store}))
	redelivered := 0
	err := SubscribeWithReplay(ctx, busA, "s", func(e verifC12Event) { redelivered++ })
	if err == nil || redelivered != 0 {
		t.Errorf("LoadOffset failed but SubscribeWithReplay returned %v and re-delivered %d events", err, redelivered)
	}
	// (b) restart on a store whose appends fail: the saved offset must not move backwards
	busB := New(WithStore(verifC12FailingAppend{store}), WithSubscriptionStore(store))
	if err := SubscribeWithReplay(ctx, busB, "s", func(e verifC12Event) {}); err != nil {
		t.Fatal(err)
	}
	Publish(busB, verifC12Event{3})
	after, _ := store.LoadOffset(ctx, "s")
	if after < saved {
		t.Errorf("saved offset moved backwards: %q -> %q", saved, after)
	}
}

// ---- C12.live.own: the live wrapper saves the bus-wide last offset, which can be ahead of an event this subscription has not been given yet
type c12liveEv struct{ N int }

// Two concurrent publishers.  Publisher B's event (2) is persisted but B is still
// inside an earlier synchronous handler, so the resumable subscription has not
// been given event 2 yet.  Publisher A's event (1) finishes in the subscription,
// which saves the bus-wide last offset (2).  The process "dies".  After the
// restart the subscription resumes after offset 2: event 2 is never delivered.
func TestVerifReplayC12LiveOwn(t *testing.T) {
	if ob := os.Getenv("VERIF_OBLIGATION"); ob != "" && !strings.Contains(ob, "C12.live.own") {
		t.Skip("scenario of C12.live.own")
	}
	store := NewMemoryStore()
	ctx := context.Background()
	bus := New(WithStore(store))
	gate := make(chan struct{})
	inGate := make(chan struct{}, 2)
	// an ordinary handler registered BEFORE the resumable subscription: it parks event 2
	Subscribe(bus, func(e c12liveEv) {
		if e.N == 2 {
			inGate <- struct{}{}
			<-gate
		}
	})
	var got1 []int
	if err := SubscribeWithReplay(ctx, bus, "sub", func(e c12liveEv) { got1 = append(got1, e.N) }); err != nil {
		t.Fatal(err)
	}
	go Publish(bus, c12liveEv{2}) // persisted as offset 1, parked before the subscription sees it
	<-inGate
	Publish(bus, c12liveEv{1}) // persisted as offset 2, handled by the subscription, which saves the last offset
	saved, _ := store.LoadOffset(ctx, "sub")
	// --- crash here: event 2 (first record) was never handed to the subscription ---
	bus2 := New(WithStore(store))
	var got2 []int
	if err := SubscribeWithReplay(ctx, bus2, "sub", func(e c12liveEv) { got2 = append(got2, e.N) }); err != nil {
		t.Fatal(err)
	}
	close(gate)
	time.Sleep(10 * time.Millisecond)
	seen := map[int]bool{}
	for _, n := range got1 {
		seen[n] = true
	}
	for _, n := range got2 {
		seen[n] = true
	}
	_ = saved
	if !seen[2] && len(got2) == 0 {
		// got1 may later receive 2 from the parked publisher of the dead process; what matters is the restarted one
	}
	if len(got2) == 0 && !containsInt(got1Before(got1), 2) {
		t.Fatalf("event 2 was persisted before the crash, was not delivered to subscription %q before it (delivered %v), and is not replayed after the restart (replayed %v; saved offset %q)", "sub", got1Before(got1), got2, saved)
	}
}

func got1Before(x []int) []int {
	if len(x) > 1 {
		return x[:1]
	}
	return x
}
func containsInt(x []int, n int) bool {
	for _, v := range x {
		if v == n {
			return true
		}
	}
	return false
}
