package main

// Loop cutting: assert the invariant at entry, havoc what the body may
// modify, assume the invariant, and at every back edge assert it again.

import (
	"os"
	"fmt"
	"go/types"
	"sort"

	"golang.org/x/tools/go/ssa"
)

func (u *Unit) loopClauses(st *State, lp *Loop) (inv, iter []*Clause, fs *FuncSpec) {
	fs = u.specOfFrame(st)
	if fs == nil && lp.inherited && st.frame != nil && st.frame.depth == 1 {
		fs = u.fs // extracted loop: the caller's clauses for this loop number
	}
	if fs == nil {
		return nil, nil, nil
	}
	return fs.LoopInv[lp.index], fs.LoopIter[lp.index], fs
}

// callNamesInBlocks lists the event-relevant call names that occur in blocks.
func (u *Unit) callNamesInBlocks(fn *ssa.Function, blocks map[*ssa.BasicBlock]bool, seen map[*ssa.Function]bool, out map[string]bool) {
	for _, b := range fn.Blocks {
		if blocks != nil && !blocks[b] {
			continue
		}
		for _, in := range b.Instrs {
			var cc *ssa.CallCommon
			prefix := ""
			switch x := in.(type) {
			case *ssa.Call:
				cc = &x.Call
			case *ssa.Defer:
				cc = &x.Call
			case *ssa.Go:
				cc = &x.Call
				prefix = "go:"
			default:
				continue
			}
			if cc.IsInvoke() {
				out[u.typeName(cc.Value.Type())+"."+cc.Method.Name()] = true
				continue
			}
			switch c := cc.Value.(type) {
			case *ssa.Builtin:
				out["builtin."+c.Name()] = true
			case *ssa.Function:
				out[prefix+relName(c)] = true
				full := c.String()
				switch full {
				case "(*sync.WaitGroup).Add":
					out["WaitGroup.Add"] = true
				case "(*sync.WaitGroup).Done":
					out["WaitGroup.Done"] = true
				case "(*sync.WaitGroup).Wait":
					out["WaitGroup.Wait"] = true
				case "sync/atomic.CompareAndSwapUint32":
					out["atomic.CAS"] = true
					out["atomic.CAS.ok"] = true
				case "(reflect.Value).Call":
					out["reflect.Call"] = true
				case "(*sync.RWMutex).Lock", "(*sync.Mutex).Lock", "(*sync.RWMutex).RLock":
					out["lock:*"] = true
				case "(*sync.RWMutex).Unlock", "(*sync.Mutex).Unlock", "(*sync.RWMutex).RUnlock":
					out["unlock:*"] = true
				}
				if c.Parent() != nil && !seen[c] && prefix == "" {
					seen[c] = true
					u.callNamesInBlocks(c, nil, seen, out)
				}
			case *ssa.MakeClosure:
				f := c.Fn.(*ssa.Function)
				out[prefix+relName(f)] = true
				if !seen[f] && prefix == "" {
					seen[f] = true
					u.callNamesInBlocks(f, nil, seen, out)
				}
			default:
				out[u.typeName(cc.Value.Type())] = true
			}
		}
	}
}

func (u *Unit) loopEnter(st *State, lp *Loop) {
	inv, _, fs := u.loopClauses(st, lp)
	tag := fmt.Sprintf("loop%d", lp.index)
	if st.frame.fn != u.fn && !(lp.inherited && st.frame.depth == 1) {
		tag = relName(st.frame.fn) + "." + tag
	}
	first := lp.header.Instrs[0]
	var ghosts []*LoopGhost
	if fs != nil {
		ghosts = fs.LoopGhost[lp.index]
	}
	for _, g := range ghosts {
		env := u.newEnv(st)
		iv := u.evalSE(env, g.Init)
		st.cnt["gv!"+g.Name] = u.lower(st, iv.V, iv.Typ)
	}
	for _, c := range inv {
		env := u.newEnv(st)
		env.pre = st.snapshot()
		u.addOblig(st, tag+".inv."+labelOr(c, "inv")+".entry", c.Text, clauseProps(c, fs), u.evalBool(env, c.Expr), first, "loop invariant holds on entry: "+c.Text)
	}
	var owned []string
	if fs != nil {
		owned = fs.LoopOwned[lp.index]
	}
	for _, name := range owned {
		u.checkOwned(st, name, tag+".owned."+name+".entry", first)
	}
	eff := u.effectsOfBlocks(lp.fn, lp.blocks, map[*ssa.Function]bool{})
	if os.Getenv("EBU_VERBOSE") != "" {
		fmt.Fprintf(os.Stderr, "loop %s effects: all=%v heaps=%v\n", tag, eff.all, sortedKeys(eff.heaps))
	}
	// cells
	var roots []ssa.Value
	for r := range eff.roots {
		roots = append(roots, r)
	}
	sort.Slice(roots, func(i, j int) bool { return roots[i].Name() < roots[j].Name() })
	for _, r := range roots {
		if al, ok := r.(*ssa.Alloc); ok && al.Parent() == lp.fn && lp.blocks[al.Block()] {
			continue // re-created in every iteration
		}
		v, ok := st.frame.regs[r]
		if !ok {
			continue
		}
		p, ok := v.(*Ptr)
		if !ok {
			continue
		}
		switch p.kind {
		case pCell:
			if st.promo[p.cell] {
				if _, isStruct := p.cell.typ.Underlying().(*types.Struct); isStruct && !isOpaqueStruct(p.cell.typ) {
					u.structHeaps(eff, p.cell.typ)
				} else {
					hn, hs := derefHeapName(u.sortOf(p.cell.typ))
					eff.heaps[hn] = hs
				}
				continue
			}
			cur := st.cells[p.cell]
			if _, isT := cur.(T); isT || cur == nil {
				nv := u.freshOfType(st, "loop."+p.cell.name, p.cell.typ)
				if isRefType(p.cell.typ) {
					u.assumeAllocated(st, nv)
				}
				st.cells[p.cell] = nv
			}
		case pArrLit:
			// array literals are not modified in loops in supported code
		}
	}
	for it := range eff.iters {
		if ri, ok := st.frame.regs[it].(*RangeIter); ok && ri.seen != nil {
			cur := st.cells[ri.seen].(T)
			st.cells[ri.seen] = u.fresh("loop.rangeseen", cur.Sort)
		}
	}
	// heaps
	pre := st.snapshot()
	if eff.all {
		for _, n := range sortedKeys(eff.heaps) {
			u.noteHeap(n, eff.heaps[n])
		}
		u.havocAllExcept(st, tag, eff.heaps)
	} else {
		var names []string
		for _, n := range sortedKeys(eff.heaps) {
			u.noteHeap(n, eff.heaps[n])
			names = append(names, n)
		}
		if len(names) > 0 {
			u.havocNamesFrame(st, names, tag, false)
		}
	}
	// context oracle: monotone across iterations
	for k, prev := range st.ctxDone {
		d := u.fresh("ctxdone.loop", SBool)
		st.assume(Implies(prev, d))
		st.ctxDone[k] = d
	}
	// counters of events that can fire in the loop
	names := map[string]bool{}
	u.callNamesInBlocks(lp.fn, lp.blocks, map[*ssa.Function]bool{}, names)
	for _, ev := range u.eng.spec.Events {
		hit := false
		for n := range names {
			if eventMayMatch(ev.Pattern, n) || (n == "lock:*" && hasPrefixAny(ev.Pattern, "lock:")) || (n == "unlock:*" && hasPrefixAny(ev.Pattern, "unlock:")) {
				hit = true
			}
		}
		if !hit {
			continue
		}
		cn := "cnt!" + ev.Name
		cur, ok := st.cnt[cn]
		if !ok {
			cur = IntLit(0)
		}
		nv := u.fresh("loop."+cn, SInt)
		st.assume(Le(cur, nv))
		st.cnt[cn] = nv
		if ev.Key != nil {
			ck := "cntk!" + ev.Name
			var nk T
			if curk, ok := st.cnt[ck]; ok {
				nk = u.fresh("loop."+ck, curk.Sort)
				ks, _ := arrParts(curk.Sort)
				st.assume(T{fmt.Sprintf("(forall ((x!q %s)) (! (<= (select %s x!q) (select %s x!q)) :pattern ((select %s x!q))))", ks, curk.S, nk.S, nk.S), SBool})
			} else {
				// the keyed counter array starts as all-zero before the loop
				nk = u.fresh("loop."+ck, ArrSort(SInt, SInt))
				st.assume(T{fmt.Sprintf("(forall ((x!q Int)) (! (<= 0 (select %s x!q)) :pattern ((select %s x!q))))", nk.S, nk.S), SBool})
			}
			st.cnt[ck] = nk
		}
		delete(st.lastArgs, ev.Name)
		if ev.Record {
			for i, srt := range ev.RecordArgs {
				key := fmt.Sprintf("seq!%s!%d", ev.Name, i)
				st.cnt[key] = u.fresh("loop.seq", ArrSort(SInt, srt))
			}
		}
	}
	for _, name := range owned {
		// after the havoc the variable holds some slice whose backing array is
		// private (or nil): give that array a name and keep it private
		env := u.newEnv(st)
		if c, ok := u.lookupName(env, name); ok {
			if cur, ok := st.cells[c].(T); ok && cur.Sort == SSlice {
				a := u.fresh("owned."+name, SInt)
				al := u.heapGet(st.view(), "alloc", ArrSort(SInt, SBool))
				st.assume(Or(Eq(app(SInt, "sarr", cur), IntLit(0)), And(Eq(app(SInt, "sarr", cur), a), Select(al, a))))
				for _, p := range st.private {
					st.assume(Neq(a, p.ref))
				}
				u.sliceArr[cur.S] = a.S
				if st2, isSl := c.typ.Underlying().(*types.Slice); isSl {
					st.private = append(st.private, privRef{a, "arr:" + string(u.sortOf(st2.Elem())), ""})
				}
			}
		}
	}
	for _, g := range ghosts {
		st.cnt["gv!"+g.Name] = u.fresh("loop.ghost."+g.Name, g.Sort)
	}
	for _, c := range inv {
		env := u.newEnv(st)
		env.pre = pre
		st.assume(u.evalBool(env, c.Expr))
	}
	lc := &LoopCtx{loop: lp, head: st.snapshot(), pre: pre}
	lc.headTokens = map[string]int{}
	for k, v := range st.tokens {
		lc.headTokens[k] = v
	}
	lc.headLocks = len(st.locks)
	lc.headCreated = len(st.created)
	st.loops = append(st.loops, lc)
}

func (u *Unit) loopBackEdge(st *State, lp *Loop) {
	inv, iter, fs := u.loopClauses(st, lp)
	tag := fmt.Sprintf("loop%d", lp.index)
	if st.frame.fn != u.fn && !(lp.inherited && st.frame.depth == 1) {
		tag = relName(st.frame.fn) + "." + tag
	}
	var lc *LoopCtx
	for _, x := range st.loops {
		if x.loop == lp {
			lc = x
		}
	}
	first := lp.header.Instrs[0]
	u.addCover(st, tag+".backedge", "", "the loop body can complete an iteration under the invariant")
	u.checkCreatedInvariants(st, tag+".created", first, lc.headCreated)
	env := u.newEnv(st)
	env.head = lc.head
	env.pre = lc.pre
	// specification-only loop variables take their new values (simultaneously)
	if fs != nil {
		newVals := map[string]T{}
		for _, g := range fs.LoopGhost[lp.index] {
			if g.Step == nil {
				continue
			}
			sv := u.evalSE(env, g.Step)
			newVals["gv!"+g.Name] = u.bind(st, u.lower(st, sv.V, sv.Typ), "gv."+g.Name)
		}
		for k, v := range newVals {
			st.cnt[k] = v
		}
		if len(newVals) > 0 {
			env = u.newEnv(st)
			env.head = lc.head
			env.pre = lc.pre
		}
	}
	// per-iteration postconditions first: once proved they are facts about this
	// iteration that the preservation proofs of the invariants may use
	for _, c := range iter {
		g := u.evalBool(env, c.Expr)
		u.addOblig(st, tag+".iter."+labelOr(c, "iter"), c.Text, clauseProps(c, fs), g, first, "per-iteration postcondition: "+c.Text)
		st.assume(g)
	}
	for _, c := range inv {
		u.addOblig(st, tag+".inv."+labelOr(c, "inv")+".preserve", c.Text, clauseProps(c, fs), u.evalBool(env, c.Expr), first, "loop invariant preserved by the body: "+c.Text)
	}
	if fs != nil {
		for _, name := range fs.LoopOwned[lp.index] {
			u.checkOwned(st, name, tag+".owned."+name+".preserve", first)
		}
	}
	okTok := True
	for k, v := range st.tokens {
		if lc.headTokens[k] != v {
			okTok = False
		}
	}
	if len(st.tokens) > 0 || len(lc.headTokens) > 0 {
		u.addOblig(st, tag+".tokens", "", u.propsFor("C06"), okTok, first, "WaitGroup credits held are the same at every loop iteration boundary")
	}
	okLock := True
	if len(st.locks) != lc.headLocks {
		okLock = False
	}
	u.addOblig(st, tag+".lockset", "", u.propsFor("C03"), okLock, first, "lockset is the same at every loop iteration boundary")
}

// checkOwned: the named slice variable is nil or backed by a private array
// (decided syntactically from how the engine built the value).
func (u *Unit) checkOwned(st *State, name, oblig string, at ssa.Instruction) {
	env := u.newEnv(st)
	goal := False
	if c, ok := u.lookupName(env, name); ok {
		if cur, ok := st.cells[c].(T); ok && u.isPrivateArr(st, cur) {
			goal = True
		}
	}
	u.addOblig(st, oblig, "", nil, goal, at, "slice variable "+name+" is nil or backed by an array that is private to this activation (only ever assigned from append on itself)")
}
