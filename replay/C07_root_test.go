package eventbus

// Replay driver for C07 (injected with `go test -overlay`).

import (
	"context"
	"os"
	"strings"
	"sync"
	"testing"
	"time"
)

type verifC07Ev struct{ N int }

// verifC07Obs delays the first handler invocation between "goroutine started"
// and "Sequential mutex taken" (OnHandlerStart runs before the lock).  Any
// scheduler may produce this delay; the hook only makes it deterministic.
type verifC07Obs struct {
	mu      sync.Mutex
	calls   int
	entered chan struct{}
	release chan struct{}
}

func (o *verifC07Obs) OnPublishStart(ctx context.Context, t string, e any) context.Context {
	return ctx
}
func (o *verifC07Obs) OnPublishComplete(ctx context.Context, t string) {}
func (o *verifC07Obs) OnHandlerStart(ctx context.Context, t string, async bool) context.Context {
	o.mu.Lock()
	o.calls++
	first := o.calls == 1
	o.mu.Unlock()
	if first {
		close(o.entered)
		<-o.release
	}
	return ctx
}
func (o *verifC07Obs) OnHandlerComplete(ctx context.Context, d time.Duration, err error) {}
func (o *verifC07Obs) OnPersistStart(ctx context.Context, t string, p int64) context.Context {
	return ctx
}
func (o *verifC07Obs) OnPersistComplete(ctx context.Context, d time.Duration, err error) {}

// PublishContext#at.C07.order: two events published one after the other by the same
// goroutine to an Async+Sequential handler are processed in the opposite order.
func TestVerifReplayC07(t *testing.T) {
	if ob := os.Getenv("VERIF_OBLIGATION"); ob != "" && !strings.Contains(ob, "C07.order") {
		t.Skip("scenario of C07.order")
	}
	obs := &verifC07Obs{entered: make(chan struct{}), release: make(chan struct{})}
	bus := New(WithObservability(obs))
	var mu sync.Mutex
	var order []int
	processed2 := make(chan struct{})
	Subscribe(bus, func(e verifC07Ev) {
		mu.Lock()
		order = append(order, e.N)
		mu.Unlock()
		if e.N == 2 {
			close(processed2)
		}
	}, Async(), Sequential())
	Publish(bus, verifC07Ev{1})
	<-obs.entered // event 1's goroutine is running but has not taken the Sequential mutex yet
	Publish(bus, verifC07Ev{2})
	select {
	case <-processed2:
	case <-time.After(3 * time.Second):
		close(obs.release)
		bus.Wait()
		t.Skip("event 2 waited for event 1: order preserved on this run")
	}
	close(obs.release)
	bus.Wait()
	if len(order) != 2 || order[0] != 1 {
		t.Fatalf("events 1 and 2 were published in that order by one goroutine; the Async+Sequential handler processed them as %v", order)
	}
}
