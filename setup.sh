#!/bin/sh
# Build the verifier offline from vendored sources.
set -e
cd "$(dirname "$0")/engine"
mkdir -p ../bin
GOPROXY=off GOTOOLCHAIN=local GOFLAGS=-mod=vendor go1.26.8 build -o ../bin/ebuverify .
echo "built /verif/bin/ebuverify"
