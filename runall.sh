#!/bin/bash
# usage: runall.sh [-update-expected] P...   (runs quick checks, prints one summary line each)
cd /verif
extra=""
if [ "$1" = "-update-expected" ]; then extra="-update-expected"; shift; fi
for p in "$@"; do
  s=$(date +%s)
  out=$(./bin/ebuverify check -p $p -tier quick $extra 2>&1)
  rc=$?
  echo "== $p rc=$rc $(( $(date +%s)-s ))s"
  echo "$out" | grep -E "VIOLATION|KNOWN|obligation |unverified|no function|: [0-9]+ obligations" | head -30
done
