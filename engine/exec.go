package main

// Symbolic execution of go/ssa (naive form) with loops cut at invariants.

import (
	"fmt"
	"go/constant"
	"go/token"
	"go/types"
	"sort"
	"strings"

	"golang.org/x/tools/go/ssa"
)

type Oblig struct {
	Name   string
	Props  []string
	Func   string
	Kind   string
	Pos    string
	Text   string
	Assume []T
	Goal   T
	Trace  []string
	Path   int
	Group  string // covers: "exit" = at least one of the group must be reachable
	// filled by discharge
	Res SolverResult
}

type Loop struct {
	index  int
	header *ssa.BasicBlock
	blocks map[*ssa.BasicBlock]bool
	fn     *ssa.Function
	// inherited: a loop of a contract-less helper called directly by the function under
	// verification; it is numbered among that function's loops and takes its `loop K` clauses
	inherited bool
}

type Unit struct {
	eng       *Engine
	pkg       *ssa.Package
	fn        *ssa.Function
	fs        *FuncSpec
	decls     *Decls
	nfresh    int
	ncell     int
	obligs    []*Oblig
	loops     map[*ssa.BasicBlock]*Loop
	heapSorts map[string]Sort
	heapOrder []string
	unsupported []string
	autoInlined map[string]bool
	atHit     map[*Clause]bool
	npaths    int
	props     []string
	assumed   map[string]bool // assumption notes for the evidence
	covers    []*Oblig
	callOrd   map[string]int
	siteOrd   map[ssa.Instruction]int
	feas      *feasSolver
	curInstr  ssa.Instruction
	pdoms     map[*ssa.Function]map[*ssa.BasicBlock]*ssa.BasicBlock
	noMerge   bool
	entryVariant []T // values of the `decreases` clauses at entry (self-recursion variant)
	deadBlocks   []string
	entryEpoch   int // heap epoch of the function's entry state
	aliasCache   map[*ssa.Function]map[string]string // rename tolerance: old name -> new name per function
	pruned       []prunedBranch // branches the solver found infeasible
	deadAfterCall []string      // ... whose condition depends on the result of a call replaced by a contract and whose target no path reaches
	reached      map[*ssa.BasicBlock]bool // basic blocks some explored path entered (vacuity guard: dead code)
	entryParams map[string]SV
	curArgTypes []types.Type
	lastArgTypes map[string][]types.Type
	entryLocks int
	sliceArr  map[string]string // named slice term -> its backing array term
	arrayOfCache map[string]T
	defOf     map[string]string // bound name -> defining term
}

const maxPaths = 6000

type Outcome struct {
	st       *State
	results  []Value
	panicked bool
	atJoin   bool // the path stopped at the join block of an enclosing `if`
}

func (u *Unit) unsupportedf(format string, args ...interface{}) {
	msg := fmt.Sprintf(format, args...)
	for _, m := range u.unsupported {
		if m == msg {
			return
		}
	}
	u.unsupported = append(u.unsupported, msg)
}

func (u *Unit) note(s string) { u.assumed[s] = true }

// ------------------------------------------------------------------ loops

func (u *Unit) findLoops(fn *ssa.Function) {
	if len(fn.Blocks) == 0 {
		return
	}
	var headers []*ssa.BasicBlock
	body := map[*ssa.BasicBlock]map[*ssa.BasicBlock]bool{}
	for _, b := range fn.Blocks {
		for _, s := range b.Succs {
			if s.Dominates(b) { // back edge b -> s
				if body[s] == nil {
					body[s] = map[*ssa.BasicBlock]bool{s: true}
					headers = append(headers, s)
				}
				// natural loop: all blocks that reach b without passing s
				var stack []*ssa.BasicBlock
				if !body[s][b] {
					body[s][b] = true
					stack = append(stack, b)
				}
				for len(stack) > 0 {
					x := stack[len(stack)-1]
					stack = stack[:len(stack)-1]
					for _, p := range x.Preds {
						if !body[s][p] {
							body[s][p] = true
							stack = append(stack, p)
						}
					}
				}
			}
		}
	}
	sort.Slice(headers, func(i, j int) bool { return blockPos(headers[i]) < blockPos(headers[j]) })
	for i, h := range headers {
		u.loops[h] = &Loop{index: i + 1, header: h, blocks: body[h], fn: fn}
	}
}

// blockPos orders loop headers by source position of their first positioned
// instruction (falls back to the block index).
func blockPos(b *ssa.BasicBlock) int {
	best := token.Pos(0)
	for _, in := range b.Instrs {
		if p := in.Pos(); p.IsValid() && (best == 0 || p < best) {
			best = p
		}
	}
	if best == 0 {
		// use the smallest position in the loop-body successor blocks
		return 1<<30 + b.Index
	}
	return int(best)
}

// ---------------------------------------------------------------- helpers

func (u *Unit) newCell(s *State, name string, t types.Type) *Cell {
	u.ncell++
	c := &Cell{name: name, typ: t, id: u.ncell}
	return c
}

// lower converts an engine value into an SMT term of the sort of Go type t.
func (u *Unit) lower(s *State, v Value, t types.Type) T {
	switch x := v.(type) {
	case T:
		return x
	case *Ptr:
		return u.lowerPtr(s, x)
	case *Closure:
		if x.id.S == "" {
			x.id = u.fresh("closure."+x.fn.Name(), SInt)
			s.assume(Neq(x.id, IntLit(0)))
			u.eng.closureIDs[x.id.S] = x
			u.closureFacts(s, x)
		}
		return x.id
	case *FuncVal:
		name := "fn!" + smtName(x.fn.String())
		u.decls.Add(name, fmt.Sprintf("(declare-const %s Int)\n(assert (not (= %s 0)))", name, name))
		return T{name, SInt}
	case *SliceLit:
		// materialise the literal as a fresh backing array (once per state)
		if t, ok := s.litCache[x]; ok {
			return t
		}
		es := u.sortOf(x.lit.etyp)
		arr := u.newRef(s, "arrlit")
		hn, hs := elemHeapName(es)
		h := u.heapGet(s.view(), hn, hs)
		row := Select(h, arr)
		for i, e := range x.lit.elems {
			row = Store(row, IntLit(int64(i)), u.lower(s, e, x.lit.etyp))
		}
		u.heapSet(s, hn, Store(h, arr, row))
		n := IntLit(int64(len(x.lit.elems)))
		res := app(SSlice, "mk_slice", arr, IntLit(0), n, n)
		if s.litCache == nil {
			s.litCache = map[*SliceLit]T{}
		}
		s.litCache[x] = res
		return res
	case nil:
		return u.zero(t)
	}
	u.unsupportedf("lower: cannot lower %T", v)
	return u.fresh("unlowerable", u.sortOf(t))
}

func (u *Unit) lowerPtr(s *State, p *Ptr) T {
	switch p.kind {
	case pDeref:
		if len(p.path) == 0 {
			return p.base
		}
	case pCell:
		if len(p.path) == 0 {
			// promote the cell to a heap location
			return u.promoteCell(s, p.cell)
		}
	case pField:
		if len(p.path) == 0 {
			if t, ok := u.fieldAddrTerm(p.styp, p.field, p.base); ok {
				u.eng.iptrs[t.S] = p
				return t
			}
		}
	}
	// interior pointer: uninterpreted, injective in (description)
	name := "iptr!" + smtName(p.String())
	if len(name) > 120 {
		name = name[:120]
	}
	u.decls.Add(name, fmt.Sprintf("(declare-const %s Int)\n(assert (not (= %s 0)))", name, name))
	u.eng.iptrs[name] = p
	return T{name, SInt}
}

// promoteCell moves a local variable to the heap so that its address can be a value.
func (u *Unit) promoteCell(s *State, c *Cell) T {
	if s.promo[c] {
		return *c.promoted
	}
	// the reference constant is shared by all paths; the heap cell it names is
	// created in this state
	var r T
	if c.promoted != nil {
		r = *c.promoted
		u.allocRef(s, r)
	} else {
		r = u.newRef(s, "cellref."+c.name)
	}
	if s.promo == nil {
		s.promo = map[*Cell]bool{}
	}
	s.promo[c] = true
	cur := s.cells[c]
	if st, ok := c.typ.Underlying().(*types.Struct); ok && !isOpaqueStruct(c.typ) {
		cv := u.lower(s, cur, c.typ)
		for i := 0; i < st.NumFields(); i++ {
			hn, hs, _ := u.fieldHeapName(c.typ, i)
			h := u.heapGet(s.view(), hn, hs)
			u.heapSet(s, hn, Store(h, r, u.structGet(cv, c.typ, i)))
		}
		s.private = append(s.private, privRef{r, "obj:" + structName(c.typ), ""})
	} else {
		es := u.sortOf(c.typ)
		hn, hs := derefHeapName(es)
		h := u.heapGet(s.view(), hn, hs)
		u.heapSet(s, hn, Store(h, r, u.lower(s, cur, c.typ)))
		s.private = append(s.private, privRef{r, "deref:" + string(es), ""})
	}
	c.promoted = &r
	delete(s.cells, c)
	u.eng.iptrs[r.S] = &Ptr{kind: pDeref, base: r, rtyp: c.typ, typ: c.typ}
	return r
}

func isOpaqueStruct(t types.Type) bool {
	if n, ok := t.(*types.Named); ok {
		return opaqueNamed[typeKey(n)]
	}
	return false
}

// ptrOf interprets a value as a pointer.
func (u *Unit) ptrOf(s *State, v Value, pointee types.Type) *Ptr {
	switch x := v.(type) {
	case *Ptr:
		return x
	case T:
		// SMT-level pointer: object reference or pointer to scalar
		if _, ok := pointee.Underlying().(*types.Struct); ok && !isOpaqueStruct(pointee) {
			return &Ptr{kind: pDeref, base: x, rtyp: pointee, typ: pointee}
		}
		if ip, ok := u.eng.iptrs[x.S]; ok {
			return ip
		}
		return &Ptr{kind: pDeref, base: x, rtyp: pointee, typ: pointee}
	}
	u.unsupportedf("ptrOf: %T is not a pointer", v)
	return &Ptr{kind: pDeref, base: u.fresh("badptr", SInt), rtyp: pointee, typ: pointee}
}

// load reads through a pointer.
func (u *Unit) load(s *State, p *Ptr) Value {
	return u.loadView(s, s.view(), s.cells, p)
}

func (u *Unit) loadView(s *State, hv heapView, cells map[*Cell]Value, p *Ptr) Value {
	var root Value
	switch p.kind {
	case pCell:
		if _, inCells := cells[p.cell]; !inCells && s.promo[p.cell] {
			return u.loadView(s, hv, cells, u.promotedPtr(p))
		}
		v, ok := cells[p.cell]
		if !ok {
			v = u.zero(p.cell.typ)
		}
		root = v
	case pArrLit:
		root = p.lit.elems[p.litIdx]
		if root == nil {
			root = u.zero(p.lit.etyp)
		}
	case pField:
		hn, hs, _ := u.fieldHeapName(p.styp, p.field)
		root = Select(u.heapGet(hv, hn, hs), p.base)
	case pElem:
		hn, hs := elemHeapName(u.sortOf(p.rtyp))
		if p.sl.S != "" {
			root = u.selem(u.heapGet(hv, hn, hs), p.sl, p.rel)
		} else {
			root = Select(Select(u.heapGet(hv, hn, hs), p.base), p.idx)
		}
	case pDeref:
		if st, ok := p.rtyp.Underlying().(*types.Struct); ok && !isOpaqueStruct(p.rtyp) {
			if len(p.path) > 0 && p.path[0].field >= 0 {
				q := &Ptr{kind: pField, base: p.base, styp: p.rtyp, field: p.path[0].field, rtyp: st.Field(p.path[0].field).Type(), path: p.path[1:], typ: p.typ}
				return u.loadView(s, hv, cells, q)
			}
			// whole-struct load from the heap
			var args []T
			for i := 0; i < st.NumFields(); i++ {
				hn, hs, _ := u.fieldHeapName(p.rtyp, i)
				args = append(args, Select(u.heapGet(hv, hn, hs), p.base))
			}
			if st.NumFields() == 0 {
				args = append(args, IntLit(0))
			}
			srt := u.sortOf(p.rtyp)
			root = app(srt, "mk_"+string(srt), args...)
		} else {
			es := u.sortOf(p.rtyp)
			hn, hs := derefHeapName(es)
			rt := Select(u.heapGet(hv, hn, hs), p.base)
			if afs := u.aliasedFields(p.rtyp); len(afs) > 0 && !u.knownPlainRef(s, p.base) {
				for _, af := range afs {
					fhn, fhs, _ := u.fieldHeapName(af.styp, af.field)
					rt = Ite(Eq(ftagOf(p.base), IntLit(int64(af.tag))), Select(u.heapGet(hv, fhn, fhs), u.ownerOf(af, p.base)), rt)
				}
			}
			root = rt
		}
	case pGlobal:
		hn := "G!" + smtName(p.global)
		root = u.heapGet(hv, hn, u.sortOf(p.rtyp))
	}
	if len(p.path) == 0 {
		return root
	}
	rt, ok := root.(T)
	if !ok {
		u.unsupportedf("load: projection of non-term value %T", root)
		return u.fresh("badload", u.sortOf(p.typ))
	}
	for _, st := range p.path {
		if st.field >= 0 {
			rt = u.structGet(rt, st.styp, st.field)
		} else {
			rt = Select(rt, st.idx)
		}
	}
	return rt
}

func (u *Unit) promotedPtr(p *Ptr) *Ptr {
	r := *p.cell.promoted
	q := &Ptr{kind: pDeref, base: r, rtyp: p.cell.typ, path: p.path, typ: p.typ}
	return q
}

// store writes through a pointer.
func (u *Unit) store(s *State, p *Ptr, v Value) {
	if p.kind == pCell && s.promo[p.cell] {
		u.store(s, u.promotedPtr(p), v)
		return
	}
	if len(p.path) > 0 {
		if p.kind == pDeref {
			if st, ok := p.rtyp.Underlying().(*types.Struct); ok && !isOpaqueStruct(p.rtyp) && p.path[0].field >= 0 {
				q := &Ptr{kind: pField, base: p.base, styp: p.rtyp, field: p.path[0].field, rtyp: st.Field(p.path[0].field).Type(), path: p.path[1:], typ: p.typ}
				u.store(s, q, v)
				return
			}
		}
		// read-modify-write of the root value
		rootPtr := *p
		rootPtr.path = nil
		rootPtr.typ = p.rtyp
		cur, ok := u.load(s, &rootPtr).(T)
		if !ok {
			u.unsupportedf("store: projection into non-term root")
			return
		}
		nv := u.updatePath(cur, p.path, u.lower(s, v, p.typ))
		u.store(s, &rootPtr, nv)
		return
	}
	switch p.kind {
	case pCell:
		s.cells[p.cell] = v
	case pArrLit:
		p.lit.elems[p.litIdx] = v
	case pField:
		hn, hs, fq := u.fieldHeapName(p.styp, p.field)
		h := u.heapGet(s.view(), hn, hs)
		tv := u.lower(s, v, p.rtyp)
		s.escape(tv)
		u.heapSet(s, hn, Store(h, p.base, tv))
		u.onFieldWrite(s, p, fq)
	case pElem:
		hn, hs := elemHeapName(u.sortOf(p.rtyp))
		h := u.heapGet(s.view(), hn, hs)
		tv := u.lower(s, v, p.rtyp)
		s.escape(tv)
		u.heapSet(s, hn, Store(h, p.base, Store(Select(h, p.base), p.idx, tv)))
	case pDeref:
		if st, ok := p.rtyp.Underlying().(*types.Struct); ok && !isOpaqueStruct(p.rtyp) {
			tv := u.lower(s, v, p.rtyp)
			for i := 0; i < st.NumFields(); i++ {
				hn, hs, _ := u.fieldHeapName(p.rtyp, i)
				h := u.heapGet(s.view(), hn, hs)
				u.heapSet(s, hn, Store(h, p.base, u.structGet(tv, p.rtyp, i)))
			}
			return
		}
		es := u.sortOf(p.rtyp)
		hn, hs := derefHeapName(es)
		h := u.heapGet(s.view(), hn, hs)
		tv := u.lower(s, v, p.rtyp)
		if !s.holdIn(tv, p.base.S) {
			s.escape(tv)
		}
		u.heapSet(s, hn, Store(h, p.base, tv))
		if afs := u.aliasedFields(p.rtyp); len(afs) > 0 && !u.knownPlainRef(s, p.base) {
			for _, af := range afs {
				fhn, fhs, fq := u.fieldHeapName(af.styp, af.field)
				fh := u.heapGet(s.view(), fhn, fhs)
				u.heapSet(s, fhn, Ite(Eq(ftagOf(p.base), IntLit(int64(af.tag))), Store(fh, u.ownerOf(af, p.base), tv), fh))
				if u.eng.spec.guardOf(fq) != "" {
					u.unsupportedf("store through a pointer that may alias lock-guarded field %s", fq)
				}
			}
		}
	case pGlobal:
		hn := "G!" + smtName(p.global)
		u.heapSet(s, hn, u.lower(s, v, p.rtyp))
	}
}

func (u *Unit) updatePath(root T, path []pstep, nv T) T {
	if len(path) == 0 {
		return nv
	}
	st := path[0]
	if st.field >= 0 {
		inner := u.structGet(root, st.styp, st.field)
		return u.structSet(root, st.styp, st.field, u.updatePath(inner, path[1:], nv))
	}
	inner := Select(root, st.idx)
	return Store(root, st.idx, u.updatePath(inner, path[1:], nv))
}

// ------------------------------------------------------------- execution

func (u *Unit) get(s *State, v ssa.Value) Value {
	switch x := v.(type) {
	case *ssa.Const:
		return u.constVal(x)
	case *ssa.Function:
		return &FuncVal{x}
	case *ssa.Global:
		return &Ptr{kind: pGlobal, global: x.String(), rtyp: x.Type().(*types.Pointer).Elem(), typ: x.Type().(*types.Pointer).Elem()}
	case *ssa.Builtin:
		return x
	}
	for f := s.frame; f != nil; f = f.parent {
		if r, ok := f.regs[v]; ok {
			return r
		}
		break
	}
	if r, ok := s.frame.regs[v]; ok {
		return r
	}
	u.unsupportedf("get: no value for %s (%T) in %s", v.Name(), v, s.frame.fn.Name())
	return u.fresh("undef", u.sortOf(v.Type()))
}

func (u *Unit) constVal(c *ssa.Const) Value {
	t := c.Type()
	if c.Value == nil {
		return u.zero(t)
	}
	switch c.Value.Kind() {
	case constant.Bool:
		if constant.BoolVal(c.Value) {
			return True
		}
		return False
	case constant.String:
		return StrLit(constant.StringVal(c.Value))
	case constant.Int:
		if n, ok := constant.Int64Val(c.Value); ok {
			return IntLit(n)
		}
		return T{c.Value.ExactString(), SInt}
	}
	return u.fresh("const", u.sortOf(t))
}

// execFunc runs fn on args within st (which is consumed) and returns all outcomes.
func (u *Unit) execFunc(st *State, fn *ssa.Function, args []Value, binds []Value) []Outcome {
	if len(fn.Blocks) == 0 {
		u.unsupportedf("execFunc: no body for %s", fn)
		return []Outcome{{st: st}}
	}
	if _, ok := u.loops[fn.Blocks[0]]; !ok {
		// loops of inlined literals are discovered on first use
		found := false
		for h := range u.loops {
			if h.Parent() == fn {
				found = true
			}
		}
		if !found {
			u.findLoops(fn)
		}
	}
	depth := 0
	if st.frame != nil {
		depth = st.frame.depth + 1
	}
	if depth > 6 {
		u.unsupportedf("inline depth exceeded at %s", fn)
		return []Outcome{{st: st}}
	}
	fr := &Frame{fn: fn, regs: map[ssa.Value]Value{}, parent: st.frame, named: map[string]*Cell{}, depth: depth}
	for i, p := range fn.Params {
		if i < len(args) {
			fr.regs[p] = args[i]
		}
	}
	for i, fv := range fn.FreeVars {
		if i < len(binds) {
			fr.regs[fv] = binds[i]
			if p, ok := binds[i].(*Ptr); ok && p.kind == pCell {
				fr.named[fv.Name()] = p.cell
			}
		}
	}
	st.frame = fr
	fr.resultAllocs = resultAllocs(fn)
	outs := u.execBlock(st, fn.Blocks[0], nil)
	for i := range outs {
		if outs[i].st.frame != nil {
			if outs[i].st.frame.parent == nil {
				outs[i].st.lastFrame = outs[i].st.frame
			}
			outs[i].st.frame = outs[i].st.frame.parent
		}
	}
	return outs
}

type prunedBranch struct {
	target *ssa.BasicBlock
	cond   string
	at     ssa.Instruction
}

// mentionsCallResult: the term depends (through named terms) on a value returned by a call
// that was replaced by its contract (symbols res.* / callee.*).
func mentionsCallResult(t string, seen map[string]bool) bool {
	for _, tok := range strings.FieldsFunc(t, func(r rune) bool { return r == ' ' || r == '(' || r == ')' }) {
		if strings.HasPrefix(tok, "res.") {
			return true
		}
		if seen[tok] {
			continue
		}
		seen[tok] = true
		if d, ok := termDefs[tok]; ok && d != tok && mentionsCallResult(d, seen) {
			return true
		}
	}
	return false
}

func (u *Unit) execBlock(st *State, b *ssa.BasicBlock, pred *ssa.BasicBlock) []Outcome {
	u.npaths++
	if u.npaths > maxPaths {
		u.unsupportedf("path budget exceeded in %s", u.fn)
		return nil
	}
	if n := len(st.stopAt); n > 0 && st.stopAt[n-1].block == b && st.stopAt[n-1].depth == st.frame.depth {
		// resolve the join block's phis for this predecessor before merging
		for _, in := range b.Instrs {
			phi, ok := in.(*ssa.Phi)
			if !ok {
				break
			}
			for k, p := range b.Preds {
				if p == pred {
					st.frame.regs[phi] = u.get(st, phi.Edges[k])
				}
			}
		}
		return []Outcome{{st: st, atJoin: true}}
	}
	st.trace = append(st.trace, fmt.Sprintf("%s:%d", b.Parent().Name(), b.Index))
	if u.reached == nil {
		u.reached = map[*ssa.BasicBlock]bool{}
	}
	u.reached[b] = true
	// leaving loops
	for len(st.loops) > 0 {
		top := st.loops[len(st.loops)-1]
		if top.loop.fn == b.Parent() && !top.loop.blocks[b] {
			st.loops = st.loops[:len(st.loops)-1]
			continue
		}
		break
	}
	if lp, ok := u.loops[b]; ok {
		active := false
		for _, lc := range st.loops {
			if lc.loop == lp {
				active = true
			}
		}
		if active {
			// back edge: the invariant must be re-established; the path ends.
			u.loopBackEdge(st, lp)
			return nil
		}
		u.loopEnter(st, lp)
	}
	return u.execInstrs(st, b, 0, pred)
}

func (u *Unit) execInstrs(st *State, b *ssa.BasicBlock, from int, pred *ssa.BasicBlock) []Outcome {
	for i := from; i < len(b.Instrs); i++ {
		in := b.Instrs[i]
		switch x := in.(type) {
		case *ssa.If:
			c := u.lower(st, u.get(st, x.Cond), types.Typ[types.Bool])
			var outs []Outcome
			doThen := c.S != "false" && !u.infeasible(st, c)
			doElse := c.S != "true" && !u.infeasible(st, Not(c))
			if !doThen && c.S != "false" && st.frame != nil {
				u.pruned = append(u.pruned, prunedBranch{b.Succs[0], c.S, in})
			}
			if !doElse && c.S != "true" && st.frame != nil {
				u.pruned = append(u.pruned, prunedBranch{b.Succs[1], c.S, in})
			}
			join := u.ipdom(b)
			merging := join != nil && doThen && doElse && !u.noMerge
			if merging {
				st.stopAt = append(st.stopAt, stopPoint{join, st.frame.depth})
			}
			if doThen {
				s1 := st
				if doElse {
					s1 = st.clone()
				}
				s1.assume(c)
				outs = append(outs, u.execBlock(s1, b.Succs[0], b)...)
			}
			if doElse {
				s2 := st
				s2.assume(Not(c))
				outs = append(outs, u.execBlock(s2, b.Succs[1], b)...)
			}
			if !merging {
				return outs
			}
			// merge the states that arrived at the join block
			var rest []Outcome
			var arrived []*State
			for _, o := range outs {
				if o.atJoin && len(o.st.stopAt) > 0 && o.st.stopAt[len(o.st.stopAt)-1].block == join {
					o.st.stopAt = o.st.stopAt[:len(o.st.stopAt)-1]
					arrived = append(arrived, o.st)
				} else {
					rest = append(rest, o)
				}
			}
			var merged []*State
			for _, s := range arrived {
				done := false
				for i, m := range merged {
					if x := u.mergeStates(m, s); x != nil {
						merged[i] = x
						done = true
						break
					}
				}
				if !done {
					merged = append(merged, s)
				}
			}
			for _, m := range merged {
				rest = append(rest, u.execBlock(m, join, nil)...)
			}
			return rest
		case *ssa.Jump:
			return u.execBlock(st, b.Succs[0], b)
		case *ssa.Return:
			var res []Value
			for _, r := range x.Results {
				res = append(res, u.get(st, r))
			}
			return []Outcome{{st: st, results: res}}
		case *ssa.Panic:
			st.panicking = true
			st.panicVal, _ = u.get(st, x.X).(T)
			return u.unwind(st)
		case *ssa.RunDefers:
			states := u.runDefers(st)
			var outs []Outcome
			for _, s2 := range states {
				if s2.panicking {
					outs = append(outs, u.unwind(s2)...)
					continue
				}
				outs = append(outs, u.execInstrs(s2, b, i+1, pred)...)
			}
			return outs
		case *ssa.Phi:
			if pred == nil {
				if _, ok := st.frame.regs[x]; !ok {
					u.unsupportedf("phi without predecessor in %s", b.Parent())
				}
				continue
			}
			for k, p := range b.Preds {
				if p == pred {
					st.frame.regs[x] = u.get(st, x.Edges[k])
				}
			}
		case *ssa.Call:
			results := u.doCall(st, x, &x.Call, "call")
			if len(results) == 1 && !results[0].panicked {
				st = results[0].st
				st.frame.regs[x] = u.bindValue(st, results[0].val, x.Name())
				continue
			}
			var outs []Outcome
			for _, r := range results {
				if r.panicked {
					r.st.panicking = true
					outs = append(outs, u.unwind(r.st)...)
					continue
				}
				r.st.frame.regs[x] = r.val
				outs = append(outs, u.execInstrs(r.st, b, i+1, pred)...)
			}
			return outs
		case *ssa.Go:
			u.doGo(st, x)
		case *ssa.Defer:
			d := Deferred{call: &x.Call, instr: x}
			d.callee = u.calleeValue(st, &x.Call)
			for _, a := range x.Call.Args {
				d.args = append(d.args, u.get(st, a))
			}
			st.frame.defers = append(st.frame.defers, d)
		case *ssa.Select:
			outs := u.doSelect(st, x)
			if len(outs) == 1 {
				st = outs[0]
				continue
			}
			var res []Outcome
			for _, s2 := range outs {
				res = append(res, u.execInstrs(s2, b, i+1, pred)...)
			}
			return res
		default:
			u.execSimple(st, in)
			if v, ok := in.(ssa.Value); ok {
				if t, ok := st.frame.regs[v].(T); ok {
					st.frame.regs[v] = u.bind(st, t, v.Name())
				}
			}
		}
	}
	u.unsupportedf("block without terminator in %s", b.Parent())
	return nil
}

// unwind runs the defer stack in panicking mode and either resumes at the
// recover block or propagates the panic.
func (u *Unit) unwind(st *State) []Outcome {
	states := u.runDefers(st)
	var outs []Outcome
	for _, s2 := range states {
		if s2.panicking {
			outs = append(outs, Outcome{st: s2, panicked: true})
			continue
		}
		fn := s2.frame.fn
		if fn.Recover != nil {
			outs = append(outs, u.execBlock(s2, fn.Recover, nil)...)
		} else {
			var res []Value
			rs := fn.Signature.Results()
			for i := 0; i < rs.Len(); i++ {
				res = append(res, u.zero(rs.At(i).Type()))
			}
			outs = append(outs, Outcome{st: s2, results: res})
		}
	}
	return outs
}

// runDefers executes the frame's deferred calls (LIFO).
func (u *Unit) runDefers(st *State) []*State {
	states := []*State{st}
	for {
		progressed := false
		var next []*State
		for _, s := range states {
			if len(s.frame.defers) == 0 {
				next = append(next, s)
				continue
			}
			progressed = true
			d := s.frame.defers[len(s.frame.defers)-1]
			s.frame.defers = s.frame.defers[:len(s.frame.defers)-1]
			wasPanicking := s.panicking
			rs := u.invoke(s, d.instr, d.call, d.callee, d.args, "defer")
			for _, r := range rs {
				if r.panicked {
					r.st.panicking = true
				} else if wasPanicking && !r.st.panicking {
					// recovered inside the deferred call
				}
				next = append(next, r.st)
			}
		}
		states = next
		if !progressed {
			return states
		}
	}
}

func (u *Unit) execSimple(st *State, in ssa.Instruction) {
	fr := st.frame
	switch x := in.(type) {
	case *ssa.DebugRef:
		// ignored: named locals are tracked through Alloc comments
	case *ssa.Alloc:
		et := x.Type().(*types.Pointer).Elem()
		if at, ok := et.Underlying().(*types.Array); ok && (x.Comment == "varargs" || x.Comment == "slicelit" || x.Comment == "complit" || x.Comment == "" || x.Comment == "makeslice") && at.Len() <= 16 {
			lit := &ArrLit{elems: make([]Value, at.Len()), etyp: at.Elem()}
			fr.regs[x] = &Ptr{kind: pArrLit, lit: lit, litIdx: -1, rtyp: et, typ: et}
			return
		}
		if st2, ok := et.Underlying().(*types.Struct); ok && x.Heap && !isOpaqueStruct(et) {
			r := u.newRef(st, "new."+structName(et))
			for i := 0; i < st2.NumFields(); i++ {
				hn, hs, _ := u.fieldHeapName(et, i)
				h := u.heapGet(st.view(), hn, hs)
				u.heapSet(st, hn, Store(h, r, u.zero(st2.Field(i).Type())))
			}
			st.private = append(st.private, privRef{r, "obj:" + structName(et), ""})
			st.created = append(st.created, createdObj{r, structName(et), x})
			fr.regs[x] = r
			return
		}
		c := u.newCell(st, x.Comment, et)
		st.cells[c] = u.zero(et)
		if x.Comment != "" {
			if fr.resultNames[x.Comment] && !snapshotHasLocal(u.eng.dirRel(), relName(fr.fn), x.Comment) {
				// a NEW source local whose name coincides with the synthetic name of an anonymous
				// result (err, result): contract clauses written for the unchanged tree mean the result
				u.note("contract identifier " + x.Comment + " of " + relName(fr.fn) + " keeps denoting the function's result (a new local of that name was introduced)")
			} else {
				fr.named[x.Comment] = c
			}
			for oldN, newN := range u.aliasesOf(fr.fn) {
				if newN == x.Comment {
					if _, taken := fr.named[oldN]; !taken {
						fr.named[oldN] = c
						u.note("contract identifier " + oldN + " rebound to renamed local " + newN + " of " + relName(fr.fn) + " (same position and type as on the unchanged tree)")
					}
				}
			}
		}
		if names, ok := fr.resultAllocs[x]; ok {
			if fr.resultNames == nil {
				fr.resultNames = map[string]bool{}
			}
			for _, n := range names {
				fr.named[n] = c
				fr.resultNames[n] = true
			}
		}
		fr.regs[x] = &Ptr{kind: pCell, cell: c, rtyp: et, typ: et}
	case *ssa.Store:
		pt := x.Addr.Type().Underlying().(*types.Pointer).Elem()
		p := u.ptrOf(st, u.get(st, x.Addr), pt)
		u.checkNonNilPtr(st, p, x)
		u.checkGuardedWrite(st, p, x)
		u.store(st, p, u.get(st, x.Val))
	case *ssa.UnOp:
		switch x.Op {
		case token.MUL:
			pt := x.X.Type().Underlying().(*types.Pointer).Elem()
			p := u.ptrOf(st, u.get(st, x.X), pt)
			u.checkNonNilPtr(st, p, x)
			u.checkGuardedRead(st, p, x)
			v := u.load(st, p)
			if tv, ok := v.(T); ok {
				if isRefType(pt) && p.kind != pCell {
					u.assumeAllocated(st, tv)
				}
				if tv.Sort == SSlice && p.kind != pCell {
					st.assume(app(SBool, "wfSlice", tv))
					u.assumeAllocated(st, app(SInt, "sarr", tv))
					u.assumeNotPrivate(st, p, app(SInt, "sarr", tv))
				}
				if isRefType(pt) && p.kind != pCell {
					u.assumeNotPrivate(st, p, tv)
				}
				if g, ok := u.guardOf(p); ok && !u.constructing(st, p.base) {
					u.eng.prov[tv.S] = guardTag{g.MuStruct + "." + g.Mu, p.base}
				}
			}
			fr.regs[x] = v
		case token.NOT:
			fr.regs[x] = Not(u.lower(st, u.get(st, x.X), x.X.Type()))
		case token.SUB:
			fr.regs[x] = app(SInt, "-", u.lower(st, u.get(st, x.X), x.X.Type()))
		case token.ARROW:
			// blocking receive
			fr.regs[x] = u.doRecv(st, x)
		default:
			u.unsupportedf("unop %s", x.Op)
			fr.regs[x] = u.fresh("unop", u.sortOf(x.Type()))
		}
	case *ssa.BinOp:
		fr.regs[x] = u.binop(st, x)
	case *ssa.FieldAddr:
		pt := x.X.Type().Underlying().(*types.Pointer).Elem()
		base := u.get(st, x.X)
		switch bv := base.(type) {
		case T:
			ft := pt.Underlying().(*types.Struct).Field(x.Field).Type()
			// nil check
			u.addOblig(st, "nopanic.nilderef", "", nil, Neq(bv, IntLit(0)), in, "implicit: "+x.X.Name()+" is not nil")
			fr.regs[x] = &Ptr{kind: pField, base: bv, styp: pt, field: x.Field, rtyp: ft, typ: ft}
		case *Ptr:
			ft := pt.Underlying().(*types.Struct).Field(x.Field).Type()
			if bv.kind == pCell && st.promo[bv.cell] {
				bv = u.promotedPtr(bv)
			}
			np := *bv
			np.path = append(append([]pstep(nil), bv.path...), pstep{field: x.Field, styp: pt})
			np.typ = ft
			fr.regs[x] = &np
		default:
			u.unsupportedf("fieldaddr on %T", base)
		}
	case *ssa.Field:
		v := u.lower(st, u.get(st, x.X), x.X.Type())
		fr.regs[x] = u.structGet(v, x.X.Type(), x.Field)
	case *ssa.IndexAddr:
		fr.regs[x] = u.indexAddr(st, x)
	case *ssa.Index:
		// string or array indexing
		if _, ok := x.X.Type().Underlying().(*types.Array); ok {
			a := u.lower(st, u.get(st, x.X), x.X.Type())
			fr.regs[x] = Select(a, u.lower(st, u.get(st, x.Index), x.Index.Type()))
		} else {
			u.unsupportedf("index on %s", x.X.Type())
			fr.regs[x] = u.fresh("index", u.sortOf(x.Type()))
		}
	case *ssa.Lookup:
		fr.regs[x] = u.lookup(st, x)
	case *ssa.MapUpdate:
		u.mapUpdate(st, x)
	case *ssa.Extract:
		tv := u.get(st, x.Tuple)
		if tp, ok := tv.(Tuple); ok && x.Index < len(tp) {
			fr.regs[x] = tp[x.Index]
		} else {
			u.unsupportedf("extract from %T", tv)
			fr.regs[x] = u.fresh("extract", u.sortOf(x.Type()))
		}
	case *ssa.MakeInterface:
		fr.regs[x] = u.makeInterface(st, u.get(st, x.X), x.X.Type())
	case *ssa.ChangeInterface:
		fr.regs[x] = u.get(st, x.X)
	case *ssa.ChangeType:
		v := u.get(st, x.X)
		// generic T -> any conversions appear as changetype on type-param values
		if _, ok := x.Type().Underlying().(*types.Interface); ok {
			if _, isTP := x.Type().(*types.TypeParam); !isTP {
				if _, srcIface := x.X.Type().Underlying().(*types.Interface); !srcIface || isTypeParam(x.X.Type()) {
					fr.regs[x] = u.makeInterface(st, v, x.X.Type())
					return
				}
			}
		}
		fr.regs[x] = v
	case *ssa.Convert:
		fr.regs[x] = u.convert(st, x)
	case *ssa.TypeAssert:
		u.typeAssert(st, x)
	case *ssa.MakeClosure:
		cl := &Closure{fn: x.Fn.(*ssa.Function)}
		for _, b := range x.Bindings {
			cl.binds = append(cl.binds, u.get(st, b))
		}
		fr.regs[x] = cl
	case *ssa.MakeMap:
		kt := x.Type().Underlying().(*types.Map).Key()
		vt := x.Type().Underlying().(*types.Map).Elem()
		r := u.newRef(st, "map")
		dn, ds, _, _ := mapHeapNames(u.sortOf(kt), u.sortOf(vt))
		d := u.heapGet(st.view(), dn, ds)
		_, inner := arrParts(ds)
		u.heapSet(st, dn, Store(d, r, T{fmt.Sprintf("((as const %s) false)", inner), inner}))
		st.private = append(st.private, privRef{r, "map:" + string(u.sortOf(kt)) + ":" + string(u.sortOf(vt)), ""})
		fr.regs[x] = r
	case *ssa.MakeSlice:
		et := x.Type().Underlying().(*types.Slice).Elem()
		n := u.lower(st, u.get(st, x.Len), x.Len.Type())
		c := u.lower(st, u.get(st, x.Cap), x.Cap.Type())
		u.addOblig(st, "nopanic.makeslice", "", nil, And(Le(IntLit(0), n), Le(n, c)), in, "implicit: make([]T, len, cap) with 0 <= len <= cap")
		if isByteSlice(x.Type()) {
			fr.regs[x] = u.fresh("bytes", SStr)
			return
		}
		arr := u.newRef(st, "arr")
		es := u.sortOf(et)
		hn, hs := elemHeapName(es)
		h := u.heapGet(st.view(), hn, hs)
		_, inner := arrParts(hs)
		u.heapSet(st, hn, Store(h, arr, T{fmt.Sprintf("((as const %s) %s)", inner, u.zero(et).S), inner}))
		st.private = append(st.private, privRef{arr, "arr:" + string(es), ""})
		fr.regs[x] = app(SSlice, "mk_slice", arr, IntLit(0), n, c)
	case *ssa.MakeChan:
		r := u.newRef(st, "chan")
		fr.regs[x] = r
	case *ssa.Slice:
		fr.regs[x] = u.sliceOp(st, x)
	case *ssa.Range:
		fr.regs[x] = u.rangeStart(st, x)
	case *ssa.Next:
		fr.regs[x] = u.rangeNext(st, x)
	case *ssa.Send:
		u.unsupportedf("channel send")
	default:
		u.unsupportedf("instruction %T (%s)", in, in)
		if v, ok := in.(ssa.Value); ok {
			fr.regs[v] = u.fresh("unsupported", u.sortOf(v.Type()))
		}
	}
}

func isTypeParam(t types.Type) bool {
	_, ok := types.Unalias(t).(*types.TypeParam)
	return ok
}

func (u *Unit) makeInterface(st *State, v Value, from types.Type) T {
	if _, isIface := from.Underlying().(*types.Interface); isIface && !isTypeParam(from) {
		return u.lower(st, v, from)
	}
	tv := u.lower(st, v, from)
	var payload T
	switch tv.Sort {
	case SInt:
		payload = tv
	case SStr:
		payload = app(SInt, "boxStr", tv)
	case SBool:
		payload = app(SInt, "boxBool", tv)
	case SSlice:
		payload = app(SInt, "boxSlice", tv)
	case SIface:
		payload = app(SInt, "boxIface", tv)
	default:
		fn := "box!" + smtName(string(tv.Sort))
		u.decls.Add(fn, fmt.Sprintf("(declare-fun %s (%s) Int)", fn, tv.Sort))
		payload = app(SInt, fn, tv)
	}
	if isTypeParam(from) {
		u.note("A-TYPES: a value of type-parameter type converted to an interface has dynamic type T (T is not an interface type)")
	}
	return app(SIface, "mk_iface", u.typeID(from), payload)
}

func unboxPayload(u *Unit, payload T, sort Sort) T {
	switch sort {
	case SInt:
		return payload
	case SStr:
		return app(SStr, "unboxStr", payload)
	}
	fn := "unbox!" + smtName(string(sort))
	u.decls.Add(fn, fmt.Sprintf("(declare-fun %s (Int) %s)", fn, sort))
	return app(sort, fn, payload)
}

func (u *Unit) typeAssert(st *State, x *ssa.TypeAssert) {
	v := u.lower(st, u.get(st, x.X), x.X.Type())
	ity := app(SInt, "ity", v)
	var ok T
	var val Value
	if _, isIface := x.AssertedType.Underlying().(*types.Interface); isIface && !isTypeParam(x.AssertedType) {
		// assertion to an interface type: implements(dynType, iface)
		in := x.AssertedType.Underlying().(*types.Interface)
		if in.NumMethods() == 0 {
			ok = Neq(ity, IntLit(0))
		} else {
			iname := typeKey(x.AssertedType)
			if _, named := x.AssertedType.(*types.Named); !named {
				iname = "iface{" + methodNames(in) + "}"
			}
			pn := "implements_" + smtName(iname)
			u.decls.Add("ghost:"+pn, fmt.Sprintf("(declare-fun %s (Int) Bool)", pn))
			u.decls.Add(pn+"!nil", fmt.Sprintf("(assert (not (%s 0)))", pn))
			ok = app(SBool, pn, ity)
		}
		val = v
	} else {
		ok = Eq(ity, u.typeID(x.AssertedType))
		val = unboxPayload(u, app(SInt, "ival", v), u.sortOf(x.AssertedType))
	}
	if x.CommaOk {
		st.frame.regs[x] = Tuple{val, ok}
		return
	}
	u.addOblig(st, "nopanic.typeassert", "", nil, ok, x, "implicit: type assertion succeeds")
	st.assume(ok)
	st.frame.regs[x] = val
}

func methodNames(in *types.Interface) string {
	var ns []string
	for i := 0; i < in.NumMethods(); i++ {
		ns = append(ns, in.Method(i).Name())
	}
	return strings.Join(ns, ",")
}

func (u *Unit) convert(st *State, x *ssa.Convert) Value {
	v := u.get(st, x.X)
	from, to := x.X.Type(), x.Type()
	fs, ts := u.sortOf(from), u.sortOf(to)
	if fs == ts {
		tv := u.lower(st, v, from)
		if fs == SInt {
			// integer conversions between widths: value-preserving unless narrowing
			fb, ok1 := from.Underlying().(*types.Basic)
			tb, ok2 := to.Underlying().(*types.Basic)
			if ok1 && ok2 && fb.Info()&types.IsInteger != 0 && tb.Info()&types.IsInteger != 0 {
				if intWidth(tb) < intWidth(fb) || (tb.Info()&types.IsUnsigned != 0) != (fb.Info()&types.IsUnsigned != 0) {
					if !(fb.Kind() == types.Uint32 && (tb.Kind() == types.Int || tb.Kind() == types.Int64 || tb.Kind() == types.Uint64)) {
						r := u.freshOfType(st, "conv", to)
						// value preserved when in range
						return r
					}
				}
				return tv
			}
			if ok1 && ok2 && (fb.Info()&types.IsFloat != 0 || tb.Info()&types.IsFloat != 0) {
				return u.fresh("floatconv", SInt)
			}
		}
		return tv
	}
	u.unsupportedf("convert %s -> %s", from, to)
	return u.fresh("convert", ts)
}

func intWidth(b *types.Basic) int {
	switch b.Kind() {
	case types.Int8, types.Uint8:
		return 8
	case types.Int16, types.Uint16:
		return 16
	case types.Int32, types.Uint32:
		return 32
	}
	return 64
}

func (u *Unit) binop(st *State, x *ssa.BinOp) Value {
	a := u.lower(st, u.get(st, x.X), x.X.Type())
	b := u.lower(st, u.get(st, x.Y), x.Y.Type())
	switch x.Op {
	case token.EQL:
		return u.eqValues(a, b, x.X.Type())
	case token.NEQ:
		return Not(u.eqValues(a, b, x.X.Type()))
	}
	if a.Sort == SStr {
		switch x.Op {
		case token.ADD:
			return app(SStr, "str.++", a, b)
		case token.LSS:
			return app(SBool, "str.<", a, b)
		case token.LEQ:
			return app(SBool, "str.<=", a, b)
		case token.GTR:
			return app(SBool, "str.<", b, a)
		case token.GEQ:
			return app(SBool, "str.<=", b, a)
		}
	}
	if a.Sort == SInt {
		switch x.Op {
		case token.ADD:
			r := Add(a, b)
			return u.wrapInt(st, r, x)
		case token.SUB:
			return u.wrapInt(st, Sub(a, b), x)
		case token.MUL:
			return u.wrapInt(st, app(SInt, "*", a, b), x)
		case token.LSS:
			return Lt(a, b)
		case token.LEQ:
			return Le(a, b)
		case token.GTR:
			return Lt(b, a)
		case token.GEQ:
			return Le(b, a)
		case token.AND:
			if c, ok := x.Y.(*ssa.Const); ok && c.Value != nil {
				if n, ok := constant.Int64Val(c.Value); ok && n > 0 && (n&(n+1)) == 0 {
					if bt, ok := x.X.Type().Underlying().(*types.Basic); ok && bt.Info()&types.IsUnsigned != 0 {
						return app(SInt, "mod", a, IntLit(n+1))
					}
				}
			}
		case token.QUO:
			// Go truncates toward zero; SMT div floors for positive divisor.
			// Only the non-negative case is modelled.
			return u.fresh("quo", SInt)
		}
	}
	if a.Sort == SBool {
		switch x.Op {
		case token.AND, token.LAND:
			return And(a, b)
		case token.OR, token.LOR:
			return Or(a, b)
		}
	}
	u.unsupportedf("binop %s on %s", x.Op, a.Sort)
	return u.fresh("binop", u.sortOf(x.Type()))
}

// wrapInt: machine arithmetic.  The engine treats +,-,* on int/int64 as
// mathematical and emits an explicit no-overflow obligation.
func (u *Unit) wrapInt(st *State, r T, x *ssa.BinOp) T {
	if b, ok := x.Type().Underlying().(*types.Basic); ok {
		switch b.Kind() {
		case types.Int, types.Int64:
			u.addOblig(st, "nopanic.overflow", "", nil, And(Le(T{"(- 9223372036854775808)", SInt}, r), Le(r, T{"9223372036854775807", SInt})), x, "implicit: signed 64-bit arithmetic does not overflow")
		}
	}
	return r
}

func (u *Unit) eqValues(a, b T, t types.Type) T {
	switch a.Sort {
	case SIface:
		if b.S == "nil_iface" {
			return Eq(app(SInt, "ity", a), IntLit(0))
		}
		if a.S == "nil_iface" {
			return Eq(app(SInt, "ity", b), IntLit(0))
		}
		if a.S == b.S {
			return True
		}
		// a nil interface is nil whatever its (unused) payload component is
		return app(SBool, "ifaceEq", a, b)
	case SSlice:
		if b.S == "nil_slice" {
			return Eq(app(SInt, "sarr", a), IntLit(0))
		}
	}
	return Eq(a, b)
}

func (u *Unit) indexAddr(st *State, x *ssa.IndexAddr) Value {
	base := u.get(st, x.X)
	idx := u.lower(st, u.get(st, x.Index), x.Index.Type())
	switch xt := x.X.Type().Underlying().(type) {
	case *types.Slice:
		sl := u.lower(st, base, x.X.Type())
		u.checkDerivedUse(st, sl, x, false)
		u.addOblig(st, "nopanic.index", "", nil, And(Le(IntLit(0), idx), Lt(idx, app(SInt, "slen", sl))), x, "implicit: slice index in range")
		return &Ptr{kind: pElem, base: app(SInt, "sarr", sl), idx: Add(app(SInt, "soff", sl), idx), sl: sl, rel: idx, rtyp: xt.Elem(), typ: xt.Elem()}
	case *types.Pointer:
		at := xt.Elem().Underlying().(*types.Array)
		if p, ok := base.(*Ptr); ok {
			if p.kind == pArrLit {
				if c, ok := x.Index.(*ssa.Const); ok {
					n, _ := constant.Int64Val(c.Value)
					return &Ptr{kind: pArrLit, lit: p.lit, litIdx: int(n), rtyp: at.Elem(), typ: at.Elem()}
				}
				u.unsupportedf("non-constant index into array literal")
				return &Ptr{kind: pArrLit, lit: p.lit, litIdx: 0, rtyp: at.Elem(), typ: at.Elem()}
			}
			u.addOblig(st, "nopanic.index", "", nil, And(Le(IntLit(0), idx), Lt(idx, IntLit(at.Len()))), x, "implicit: array index in range")
			np := *p
			np.path = append(append([]pstep(nil), p.path...), pstep{field: -1, idx: idx})
			np.typ = at.Elem()
			return &np
		}
	}
	u.unsupportedf("indexaddr on %s", x.X.Type())
	return &Ptr{kind: pDeref, base: u.fresh("badidx", SInt), rtyp: x.Type().(*types.Pointer).Elem(), typ: x.Type().(*types.Pointer).Elem()}
}

func (u *Unit) sliceOp(st *State, x *ssa.Slice) Value {
	base := u.get(st, x.X)
	if p, ok := base.(*Ptr); ok && p.kind == pArrLit && x.Low == nil && x.High == nil {
		return &SliceLit{p.lit}
	}
	if p, ok := base.(*Ptr); ok && p.kind == pArrLit && x.Low == nil && x.High != nil {
		if h, ok := constInt(x.High); ok && int(h) <= len(p.lit.elems) {
			if int(h) == len(p.lit.elems) {
				return &SliceLit{p.lit}
			}
			// a shorter prefix of a fresh array literal (make([]T, n) with constant n):
			// materialise with the full capacity
			es := u.sortOf(p.lit.etyp)
			arr := u.newRef(st, "arr.make")
			hn, hs := elemHeapName(es)
			hp := u.heapGet(st.view(), hn, hs)
			_, inner := arrParts(hs)
			u.heapSet(st, hn, Store(hp, arr, T{fmt.Sprintf("((as const %s) %s)", inner, u.zero(p.lit.etyp).S), inner}))
			st.private = append(st.private, privRef{arr, "arr:" + string(es), ""})
			return app(SSlice, "mk_slice", arr, IntLit(0), IntLit(h), IntLit(int64(len(p.lit.elems))))
		}
	}
	if _, ok := x.X.Type().Underlying().(*types.Slice); ok && !isByteSlice(x.X.Type()) {
		sl := u.lower(st, base, x.X.Type())
		lo := IntLit(0)
		hi := app(SInt, "slen", sl)
		if x.Low != nil {
			lo = u.lower(st, u.get(st, x.Low), x.Low.Type())
		}
		if x.High != nil {
			hi = u.lower(st, u.get(st, x.High), x.High.Type())
		}
		if x.Max != nil {
			u.unsupportedf("3-index slice")
		}
		u.addOblig(st, "nopanic.slice", "", nil, And(Le(IntLit(0), lo), Le(lo, hi), Le(hi, app(SInt, "scap", sl))), x, "implicit: slice bounds in range")
		sub := u.bind(st, app(SSlice, "mk_slice", app(SInt, "sarr", sl), Add(app(SInt, "soff", sl), lo), Sub(hi, lo), Sub(app(SInt, "scap", sl), lo)), "sub")
		// sub-slice law (heap-independent): sub[i] is base[i+lo]
		es := u.sortOf(x.X.Type().Underlying().(*types.Slice).Elem())
		_, hs := elemHeapName(es)
		eq := T{"e!q", hs}
		iq := T{"i!q", SInt}
		st.assumeDef(T{fmt.Sprintf("(forall ((e!q %s) (i!q Int)) (! (= %s %s) :pattern (%s)))", hs, u.selem(eq, sub, iq).S, u.selem(eq, sl, Add(iq, lo)).S, u.selem(eq, sub, iq).S), SBool})
		if tag, ok := u.eng.prov[sliceRoot(sl.S)]; ok {
			u.eng.prov[sub.S] = tag
		}
		return sub
	}
	u.unsupportedf("slice of %s", x.X.Type())
	return u.fresh("slice", u.sortOf(x.Type()))
}

func (u *Unit) mapParts(mt types.Type) (kt, vt types.Type, ks, vs Sort) {
	m := mt.Underlying().(*types.Map)
	return m.Key(), m.Elem(), u.sortOf(m.Key()), u.sortOf(m.Elem())
}

func (u *Unit) lookup(st *State, x *ssa.Lookup) Value {
	if _, ok := x.X.Type().Underlying().(*types.Map); !ok {
		u.unsupportedf("string index")
		return u.fresh("lookup", u.sortOf(x.Type()))
	}
	_, vt, ks, vs := u.mapParts(x.X.Type())
	m := u.lower(st, u.get(st, x.X), x.X.Type())
	k := u.lower(st, u.get(st, x.Index), x.Index.Type())
	dn, ds, vn, vsrt := mapHeapNames(ks, vs)
	dom := Select(Select(u.heapGet(st.view(), dn, ds), m), k)
	present := And(Neq(m, IntLit(0)), dom)
	if tag, ok := u.eng.prov[m.S]; ok {
		u.addOblig(st, "guard.mapread."+tag.lock, "", u.propsFor("C03"), u.heldGoal(st, tag.lock, tag.base, false), x, "map guarded by "+tag.lock+" read with the lock held")
	}
	val := u.mapGet(ks, vs, vt, u.heapGet(st.view(), dn, ds), u.heapGet(st.view(), vn, vsrt), m, k)
	if val.Sort == SSlice {
		val = u.bind(st, val, "lookup")
		st.assume(app(SBool, "wfSlice", val))
		u.assumeAllocated(st, app(SInt, "sarr", val))
		if !u.constructing(st, m) {
			for _, p := range st.private {
				st.assume(Neq(app(SInt, "sarr", val), p.ref))
			}
		}
	}
	if isRefType(vt) {
		u.assumeAllocated(st, val)
	}
	if tag, ok := u.eng.prov[m.S]; ok && (val.Sort == SSlice || isRefType(vt)) {
		if _, isMap := vt.Underlying().(*types.Map); isMap || val.Sort == SSlice {
			u.eng.prov[val.S] = tag
		}
	}
	if x.CommaOk {
		return Tuple{val, present}
	}
	return val
}

func (u *Unit) mapUpdate(st *State, x *ssa.MapUpdate) {
	_, vt, ks, vs := u.mapParts(x.Map.Type())
	m := u.lower(st, u.get(st, x.Map), x.Map.Type())
	k := u.lower(st, u.get(st, x.Key), x.Key.Type())
	v := u.lower(st, u.get(st, x.Value), vt)
	u.addOblig(st, "nopanic.nilmap", "", nil, Neq(m, IntLit(0)), x, "implicit: assignment to entry in nil map")
	u.checkMapWrite(st, m, x)
	st.escape(v)
	dn, ds, vn, vsrt := mapHeapNames(ks, vs)
	d := u.heapGet(st.view(), dn, ds)
	vh := u.heapGet(st.view(), vn, vsrt)
	u.heapSet(st, dn, Store(d, m, Store(Select(d, m), k, True)))
	u.heapSet(st, vn, Store(vh, m, Store(Select(vh, m), k, v)))
}

func (u *Unit) rangeStart(st *State, x *ssa.Range) Value {
	mt, ok := x.X.Type().Underlying().(*types.Map)
	if !ok {
		u.unsupportedf("range over %s", x.X.Type())
		return &RangeIter{}
	}
	ks := u.sortOf(mt.Key())
	c := u.newCell(st, "rangeseen", nil)
	seenSort := ArrSort(ks, SBool)
	st.cells[c] = T{fmt.Sprintf("((as const %s) false)", seenSort), seenSort}
	st.frame.named["rangeseen"] = c
	return &RangeIter{m: u.lower(st, u.get(st, x.X), x.X.Type()), kt: mt.Key(), vt: mt.Elem(), seen: c}
}

func (u *Unit) rangeNext(st *State, x *ssa.Next) Value {
	it, ok := u.get(st, x.Iter).(*RangeIter)
	if !ok || it.seen == nil {
		u.unsupportedf("next on unsupported iterator")
		return Tuple{u.fresh("ok", SBool), u.fresh("k", SInt), u.fresh("v", SInt)}
	}
	ks, vs := u.sortOf(it.kt), u.sortOf(it.vt)
	dn, ds, vn, vsrt := mapHeapNames(ks, vs)
	dom := Select(u.heapGet(st.view(), dn, ds), it.m)
	vals := Select(u.heapGet(st.view(), vn, vsrt), it.m)
	seen := st.cells[it.seen].(T)
	okv := u.fresh("range.ok", SBool)
	k := u.fresh("range.k", ks)
	st.assume(Implies(okv, And(Select(dom, k), Not(Select(seen, k)), Neq(it.m, IntLit(0)))))
	st.assume(Implies(Not(okv), T{fmt.Sprintf("(forall ((k!q %s)) (! (=> (select %s k!q) (select %s k!q)) :pattern ((select %s k!q))))", ks, dom.S, seen.S, dom.S), SBool}))
	st.cells[it.seen] = Ite(okv, Store(seen, k, True), seen)
	v := Select(vals, k)
	if v.Sort == SSlice {
		st.assume(app(SBool, "wfSlice", v))
	}
	return Tuple{okv, k, v}
}

const bindThreshold = 48

// bind names a large term by a fresh constant (definitional equality in the
// path condition) so that terms stay small.
func (u *Unit) bind(st *State, t T, hint string) T {
	if len(t.S) <= bindThreshold || strings.HasPrefix(t.S, "((as const") {
		return t
	}
	c := u.fresh("v."+hint, t.Sort)
	st.assumeDef(Eq(c, t))
	u.defOf[c.S] = t.S
	if tag, ok := u.eng.prov[t.S]; ok {
		u.eng.prov[c.S] = tag
	}
	if tag, ok := u.eng.prov[sliceRoot(t.S)]; ok && t.Sort == SSlice {
		u.eng.prov[c.S] = tag
	}
	return c
}

func (u *Unit) bindValue(st *State, v Value, hint string) Value {
	switch x := v.(type) {
	case T:
		return u.bind(st, x, hint)
	case Tuple:
		out := make(Tuple, len(x))
		for i := range x {
			out[i] = u.bindValue(st, x[i], hint)
		}
		return out
	}
	return v
}

// assumeNotPrivate: a reference loaded from shared memory (a location that is
// not inside an object private to this activation) is not one of the private
// references — they are unreachable from shared memory by construction
// (a private reference stops being private when it is stored or passed out).
func (u *Unit) assumeNotPrivate(st *State, from *Ptr, r T) {
	if from.kind == pCell || from.kind == pArrLit || from.kind == pGlobal {
		return
	}
	if u.constructing(st, from.base) {
		return
	}
	for _, p := range st.private {
		st.assume(Neq(r, p.ref))
	}
}

// resultAllocs finds the anonymous result variables of a function with
// deferred calls (the recover block returns their values) and names them
// result / result<i> / err for use in `at unlock:` clauses.
func resultAllocs(fn *ssa.Function) map[*ssa.Alloc][]string {
	out := map[*ssa.Alloc][]string{}
	for _, b := range fn.Blocks {
		for _, in := range b.Instrs {
			ret, ok := in.(*ssa.Return)
			if !ok {
				continue
			}
			for i, r := range ret.Results {
				un, ok := r.(*ssa.UnOp)
				if !ok {
					continue
				}
				al, ok := un.X.(*ssa.Alloc)
				if !ok || al.Comment != "" {
					continue
				}
				if _, seen := out[al]; seen {
					continue
				}
				names := []string{fmt.Sprintf("result%d", i)}
				if len(ret.Results) == 1 {
					names = append(names, "result")
				}
				if types.Identical(al.Type().(*types.Pointer).Elem(), types.Universe.Lookup("error").Type()) {
					names = append(names, "err")
				}
				out[al] = names
			}
		}
	}
	return out
}

// mapGet: Go map lookup (zero value when absent or nil map) as a macro.
func (u *Unit) mapGet(ks, vs Sort, vt types.Type, md, mv, m, k T) T {
	fn := "mapget!" + smtName(string(ks)) + "!" + smtName(string(vs))
	if !u.decls.Has(fn) {
		// an uninterpreted function with a defining axiom (not a macro), so
		// that it can occur in quantifier patterns
		u.decls.Add(fn, fmt.Sprintf("(declare-fun %s (%s %s Int %s) %s)\n(assert (forall ((md %s) (mv %s) (m Int) (k %s)) (! (= (%s md mv m k) (ite (and (not (= m 0)) (select (select md m) k)) (select (select mv m) k) %s)) :pattern ((%s md mv m k)))))",
			fn, md.Sort, mv.Sort, ks, vs, md.Sort, mv.Sort, ks, fn, u.zero(vt).S, fn))
	}
	return app(vs, fn, md, mv, m, k)
}

// selem: slice element read  s[i]  as an axiomatised function of (element
// heap, slice, index): keeps index arithmetic out of quantifier patterns.
func (u *Unit) selem(E, sl, i T) T {
	_, row := arrParts(E.Sort)
	_, es := arrParts(row)
	fn := "selem!" + smtName(string(es))
	if !u.decls.Has(fn) {
		u.decls.Add(fn, fmt.Sprintf("(declare-fun %s (%s Slice Int) %s)\n(assert (forall ((e %s) (s Slice) (i Int)) (! (= (%s e s i) (select (select e (sarr s)) (+ (soff s) i))) :pattern ((%s e s i)))))\n(assert (forall ((e1 %s) (e2 %s) (s Slice) (i Int)) (! (=> (= (select e1 (sarr s)) (select e2 (sarr s))) (= (%s e1 s i) (%s e2 s i))) :pattern ((%s e1 s i) (select e2 (sarr s))))))",
			fn, E.Sort, es, E.Sort, fn, fn, E.Sort, E.Sort, fn, fn, fn))
	}
	return app(es, fn, E, sl, i)
}
