package main

// SMT term construction and the solver portfolio.
//
// Terms are SMT-LIB2 strings tagged with their sort.  A handful of local
// simplifications (constant folding on true/false, select-over-store on equal
// indices) keep queries small; nothing here is trusted for soundness beyond
// "the printed formula is what the solver sees".

import (
	"regexp"
	"bytes"
	"context"
	"fmt"
	"os"
	"os/exec"
	"path/filepath"
	"sort"
	"strings"
	"sync"
	"time"
)

type Sort string

const (
	SInt   Sort = "Int"
	SBool  Sort = "Bool"
	SStr   Sort = "String"
	SIface Sort = "Iface"
	SSlice Sort = "Slice"
)

func ArrSort(k, v Sort) Sort { return Sort("(Array " + string(k) + " " + string(v) + ")") }

// T is an SMT term.
type T struct {
	S    string
	Sort Sort
}

func (t T) String() string { return t.S }

var (
	True  = T{"true", SBool}
	False = T{"false", SBool}
)

func IntLit(n int64) T {
	if n < 0 {
		return T{fmt.Sprintf("(- %d)", -n), SInt}
	}
	return T{fmt.Sprintf("%d", n), SInt}
}

func StrLit(s string) T {
	var b strings.Builder
	b.WriteByte('"')
	for _, r := range []byte(s) {
		switch {
		case r == '"':
			b.WriteString(`""`)
		case r >= 0x20 && r < 0x7f && r != '\\':
			b.WriteByte(r)
		default:
			fmt.Fprintf(&b, `\u{%x}`, r)
		}
	}
	b.WriteByte('"')
	return T{b.String(), SStr}
}

// ctorArgs splits "(ctor a b c)" into its arguments when s is an application of ctor.
func ctorArgs(s, ctor string) []string {
	if !strings.HasPrefix(s, "("+ctor+" ") || !strings.HasSuffix(s, ")") {
		return nil
	}
	body := s[len(ctor)+2 : len(s)-1]
	var out []string
	depth, start := 0, 0
	inStr := false
	for i := 0; i < len(body); i++ {
		c := body[i]
		if inStr {
			if c == '"' {
				inStr = false
			}
			continue
		}
		switch c {
		case '"':
			inStr = true
		case '(':
			depth++
		case ')':
			depth--
		case ' ':
			if depth == 0 {
				if i > start {
					out = append(out, body[start:i])
				}
				start = i + 1
			}
		}
	}
	if start < len(body) {
		out = append(out, body[start:])
	}
	return out
}

var selectorOf = map[string]struct {
	ctor string
	idx  int
	n    int
}{
	"sarr": {"mk_slice", 0, 4}, "soff": {"mk_slice", 1, 4}, "slen": {"mk_slice", 2, 4}, "scap": {"mk_slice", 3, 4},
	"ity": {"mk_iface", 0, 2}, "ival": {"mk_iface", 1, 2},
}

func app(sort Sort, op string, args ...T) T {
	if sel, ok := selectorOf[op]; ok && len(args) == 1 {
		if as := ctorArgs(args[0].S, sel.ctor); len(as) == sel.n {
			return T{as[sel.idx], sort}
		}
		switch args[0].S {
		case "nil_slice":
			return T{"0", sort}
		case "nil_iface":
			return T{"0", sort}
		}
	}
	if op == "elemOf" && len(args) == 1 {
		if as := ctorArgs(args[0].S, "ptrTo"); len(as) == 1 {
			return T{as[0], sort}
		}
	}
	if op == "+" && len(args) == 2 {
		if args[0].S == "0" {
			return args[1]
		}
		if args[1].S == "0" {
			return args[0]
		}
	}
	if op == "-" && len(args) == 2 && args[1].S == "0" {
		return args[0]
	}
	var b strings.Builder
	b.WriteByte('(')
	b.WriteString(op)
	for _, a := range args {
		b.WriteByte(' ')
		b.WriteString(a.S)
	}
	b.WriteByte(')')
	return T{b.String(), sort}
}

func Not(a T) T {
	switch a.S {
	case "true":
		return False
	case "false":
		return True
	}
	if strings.HasPrefix(a.S, "(not ") {
		return T{a.S[5 : len(a.S)-1], SBool}
	}
	return app(SBool, "not", a)
}

func And(as ...T) T {
	var xs []T
	for _, a := range as {
		if a.S == "true" {
			continue
		}
		if a.S == "false" {
			return False
		}
		xs = append(xs, a)
	}
	switch len(xs) {
	case 0:
		return True
	case 1:
		return xs[0]
	}
	return app(SBool, "and", xs...)
}

func Or(as ...T) T {
	var xs []T
	for _, a := range as {
		if a.S == "false" {
			continue
		}
		if a.S == "true" {
			return True
		}
		xs = append(xs, a)
	}
	switch len(xs) {
	case 0:
		return False
	case 1:
		return xs[0]
	}
	return app(SBool, "or", xs...)
}

func Implies(a, b T) T {
	if a.S == "true" {
		return b
	}
	if a.S == "false" || b.S == "true" {
		return True
	}
	return app(SBool, "=>", a, b)
}

func isNumeral(s string) bool {
	if s == "" {
		return false
	}
	for _, c := range s {
		if c < '0' || c > '9' {
			return false
		}
	}
	return true
}

func Eq(a, b T) T {
	if a.S == b.S {
		return True
	}
	if isNumeral(a.S) && isNumeral(b.S) {
		return False
	}
	return app(SBool, "=", a, b)
}

func Neq(a, b T) T { return Not(Eq(a, b)) }

func Ite(c, a, b T) T {
	switch c.S {
	case "true":
		return a
	case "false":
		return b
	}
	if a.S == b.S {
		return a
	}
	return app(a.Sort, "ite", c, a, b)
}

func Add(a, b T) T { return app(SInt, "+", a, b) }
func Sub(a, b T) T { return app(SInt, "-", a, b) }
func Lt(a, b T) T  { return app(SBool, "<", a, b) }
func Le(a, b T) T  { return app(SBool, "<=", a, b) }

// elemSort extracts the element sort of an array sort "(Array K V)".
func arrParts(s Sort) (Sort, Sort) {
	str := string(s)
	if !strings.HasPrefix(str, "(Array ") {
		panic("not an array sort: " + str)
	}
	inner := str[len("(Array ") : len(str)-1]
	// split at top-level space
	depth := 0
	for i, c := range inner {
		switch c {
		case '(':
			depth++
		case ')':
			depth--
		case ' ':
			if depth == 0 {
				return Sort(inner[:i]), Sort(inner[i+1:])
			}
		}
	}
	panic("bad array sort: " + str)
}

func Select(a, i T) T {
	_, v := arrParts(a.Sort)
	return app(v, "select", a, i)
}

func Store(a, i, v T) T { return app(a.Sort, "store", a, i, v) }

// ---------------------------------------------------------------- queries

// Decls collects declarations in order; names are unique.
type Decls struct {
	mu    sync.Mutex
	order []string
	seen  map[string]bool
}

func NewDecls() *Decls { return &Decls{seen: map[string]bool{}} }

func (d *Decls) Add(name, text string) {
	d.mu.Lock()
	defer d.mu.Unlock()
	if d.seen[name] {
		return
	}
	d.seen[name] = true
	d.order = append(d.order, text)
}

func (d *Decls) Has(name string) bool {
	d.mu.Lock()
	defer d.mu.Unlock()
	return d.seen[name]
}

func (d *Decls) Text() string {
	d.mu.Lock()
	defer d.mu.Unlock()
	return strings.Join(d.order, "\n")
}

func (d *Decls) Snapshot() []string {
	d.mu.Lock()
	defer d.mu.Unlock()
	return append([]string(nil), d.order...)
}

type SolverResult struct {
	Verdict string // "unsat" | "sat" | "unknown" | "timeout" | "error"
	Solver  string
	Seconds float64
	Output  string // raw output (model or error text)
	All     map[string]string
	Relaxed string
	FailedPart int
}

type solverDef struct {
	name string
	argv func(file string, timeoutS int) []string
	pre  string
}

var solvers = []solverDef{
	{"z3-new-5.1.0", func(f string, t int) []string { return []string{"z3-new", fmt.Sprintf("-T:%d", t), f} }, ""},
	{"z3-4.8.12", func(f string, t int) []string { return []string{"z3", fmt.Sprintf("-T:%d", t), f} }, ""},
	{"cvc5-1.0", func(f string, t int) []string {
		return []string{"cvc5", "--incremental", "--strings-exp", fmt.Sprintf("--tlimit=%d", t*1000), f}
	}, ""},
}

// needsModelFixups: cvc5 wants produce-models before set-logic; we emit
// (set-option :produce-models true) first and (set-logic ALL) second for all.
const smtHeader = "(set-option :produce-models true)\n(set-logic ALL)\n"

func firstLine(s string) string {
	s = strings.TrimSpace(s)
	if i := strings.IndexByte(s, '\n'); i >= 0 {
		return strings.TrimSpace(s[:i])
	}
	return s
}

// runSolver runs one solver on a query file.
func runSolver(ctx context.Context, sd solverDef, file string, timeoutS int) (string, string, float64) {
	start := time.Now()
	argv := sd.argv(file, timeoutS)
	cctx, cancel := context.WithTimeout(ctx, time.Duration(timeoutS+2)*time.Second)
	defer cancel()
	cmd := exec.CommandContext(cctx, argv[0], argv[1:]...)
	var out bytes.Buffer
	cmd.Stdout = &out
	cmd.Stderr = &out
	_ = cmd.Run()
	el := time.Since(start).Seconds()
	o := out.String()
	for _, line := range strings.Split(o, "\n") {
		line = strings.TrimSpace(line)
		switch line {
		case "unsat", "sat", "unknown":
			return line, o, el
		case "timeout":
			return "timeout", o, el
		}
		if strings.HasPrefix(line, "(error") {
			break
		}
	}
	if cctx.Err() != nil || strings.Contains(o, "timeout") {
		return "timeout", o, el
	}
	return "error", o, el
}

// Discharge decides "assumptions => goal" by asking for unsat of
// assumptions ∧ ¬goal.  mode "race": first definitive (sat/unsat) answer wins.
// mode "all": every solver is run and disagreements are reported.
func Discharge(dir, name, decls string, assumptions []T, goal T, timeoutS int, all bool) SolverResult {
	var b strings.Builder
	b.WriteString(smtHeader)
	b.WriteString(decls)
	b.WriteByte('\n')
	for _, a := range assumptions {
		if a.S == "true" {
			continue
		}
		b.WriteString("(assert ")
		b.WriteString(a.S)
		b.WriteString(")\n")
	}
	b.WriteString("(assert (not ")
	b.WriteString(goal.S)
	b.WriteString("))\n(check-sat)\n(get-model)\n")
	file := filepath.Join(dir, sanitize(name)+".smt2")
	if err := os.WriteFile(file, []byte(b.String()), 0o644); err != nil {
		return SolverResult{Verdict: "error", Output: err.Error()}
	}
	// Stage 1: quantifier-free relaxation (quantified assumptions and axioms
	// dropped).  Fewer assumptions: `unsat` here implies `unsat` of the full
	// query; `sat` only yields a candidate model.
	var rb strings.Builder
	rb.WriteString(smtHeader)
	rb.WriteString(dropQuantified(decls))
	rb.WriteByte('\n')
	for _, a := range assumptions {
		if a.S == "true" || strings.Contains(a.S, "forall") || strings.Contains(a.S, "exists") {
			continue
		}
		rb.WriteString("(assert ")
		rb.WriteString(a.S)
		rb.WriteString(")\n")
	}
	relaxedModel := ""
	if !strings.Contains(goal.S, "forall") && !strings.Contains(goal.S, "exists") {
		rb.WriteString("(assert (not ")
		rb.WriteString(goal.S)
		rb.WriteString("))\n(check-sat)\n(get-model)\n")
		rfile := filepath.Join(dir, sanitize(name)+".qf.smt2")
		if err := os.WriteFile(rfile, []byte(rb.String()), 0o644); err == nil {
			t := timeoutS
			if t > 5 {
				t = 5
			}
			v, o, secs := runSolver(context.Background(), solvers[0], rfile, t)
			if v == "unsat" {
				return SolverResult{Verdict: "unsat", Solver: solvers[0].name + "(qf-relaxed)", Seconds: secs, Output: o, All: map[string]string{solvers[0].name + "(qf-relaxed)": v}}
			}
			if v == "sat" {
				relaxedModel = o
			}
		}
	}
	if goal.S == "false" && relaxedModel != "" && timeoutS > 3 {
		timeoutS = 3 // a path-feasibility question with a candidate model in hand
	}
	// Stage 2: array comprehensions (arrayOf constants, each defined by a
	// quantified assertion) that the goal does not mention are sliced away
	// together with every assumption that mentions them.  Fewer assumptions
	// again, so `unsat` carries over to the full query.
	if sliced, ok := sliceComprehensions(decls, assumptions, goal); ok {
		sfile := filepath.Join(dir, sanitize(name)+".sliced.smt2")
		if err := os.WriteFile(sfile, []byte(sliced), 0o644); err == nil {
			r := solveFile(sfile, timeoutS, all)
			if r.Verdict == "unsat" {
				r.Solver += "(comprehension-sliced)"
				return r
			}
		}
	}
	res := solveFile(file, timeoutS, all)
	if res.Verdict != "unsat" && relaxedModel != "" {
		res.Output = "candidate model (quantifier-free relaxation, z3-new):\n" + relaxedModel + "\n--- full query output ---\n" + res.Output
		res.Relaxed = relaxedModel
	}
	return res
}

var reArrConst = regexp.MustCompile(`cmp\.[A-Za-z0-9_]+![0-9]+`)

// sliceComprehensions builds the query without the comprehension constants the
// goal does not mention (ok == false if there is nothing to slice).
func sliceComprehensions(decls string, assumptions []T, goal T) (string, bool) {
	inGoal := map[string]bool{}
	for _, c := range reArrConst.FindAllString(goal.S, -1) {
		inGoal[c] = true
	}
	drop := map[string]bool{}
	for _, c := range reArrConst.FindAllString(decls, -1) {
		if !inGoal[c] {
			drop[c] = true
		}
	}
	if len(drop) == 0 {
		return "", false
	}
	mentionsDropped := func(t string) bool {
		for _, c := range reArrConst.FindAllString(t, -1) {
			if drop[c] {
				return true
			}
		}
		return false
	}
	var kept []string
	for _, a := range assumptions {
		if a.S == "true" || mentionsDropped(a.S) {
			continue
		}
		kept = append(kept, a.S)
	}
	// axioms about functions that no remaining assumption (nor the goal) uses go too
	var funs []string
	for _, l := range strings.Split(decls, "\n") {
		if strings.HasPrefix(l, "(declare-fun ") {
			f := strings.Fields(l[len("(declare-fun "):])
			if len(f) > 0 {
				funs = append(funs, f[0])
			}
		}
	}
	inUse := func(fn string) bool {
		pat := "(" + fn + " "
		if strings.Contains(goal.S, pat) {
			return true
		}
		for _, a := range kept {
			if strings.Contains(a, pat) {
				return true
			}
		}
		return false
	}
	used := map[string]bool{}
	for _, f := range funs {
		if inUse(f) {
			used[f] = true
		}
	}
	var b strings.Builder
	b.WriteString(smtHeader)
	for _, l := range strings.Split(decls, "\n") {
		if strings.HasPrefix(l, "(assert") {
			if mentionsDropped(l) {
				continue
			}
			mentionsAny, mentionsUsed := false, false
			for _, f := range funs {
				if strings.Contains(l, "("+f+" ") {
					mentionsAny = true
					if used[f] {
						mentionsUsed = true
					}
				}
			}
			if mentionsAny && !mentionsUsed {
				continue
			}
		}
		b.WriteString(l)
		b.WriteByte('\n')
	}
	for _, a := range kept {
		b.WriteString("(assert ")
		b.WriteString(a)
		b.WriteString(")\n")
	}
	b.WriteString("(assert (not ")
	b.WriteString(goal.S)
	b.WriteString("))\n(check-sat)\n(get-model)\n")
	return b.String(), true
}

func solveFile(file string, timeoutS int, all bool) SolverResult {
	ctx, cancel := context.WithCancel(context.Background())
	defer cancel()
	type r struct {
		sd      solverDef
		v, o    string
		seconds float64
	}
	ch := make(chan r, len(solvers))
	for _, sd := range solvers {
		go func(sd solverDef) {
			v, o, s := runSolver(ctx, sd, file, timeoutS)
			ch <- r{sd, v, o, s}
		}(sd)
	}
	res := SolverResult{Verdict: "unknown", All: map[string]string{}}
	var best *r
	for i := 0; i < len(solvers); i++ {
		x := <-ch
		res.All[x.sd.name] = x.v
		definitive := x.v == "unsat" || x.v == "sat"
		if definitive && best == nil {
			xx := x
			best = &xx
			if !all {
				cancel()
				break
			}
			// agreement mode: give the other solvers a bounded grace period
			go func() {
				time.Sleep(10 * time.Second)
				cancel()
			}()
		}
		if best == nil && res.Output == "" && x.v != "error" {
			res.Output = x.o
			res.Solver = x.sd.name
			res.Verdict = x.v
			res.Seconds = x.seconds
		}
		if best == nil && x.v == "error" && res.Output == "" {
			res.Output = x.o
			res.Solver = x.sd.name
			res.Verdict = "error"
		}
	}
	if best != nil {
		res.Verdict = best.v
		res.Solver = best.sd.name
		res.Seconds = best.seconds
		res.Output = best.o
		if all {
			// disagreement check
			for n, v := range res.All {
				if (v == "sat" || v == "unsat") && v != best.v {
					res.Verdict = "disagree"
					res.Output += "\nDISAGREEMENT: " + n + "=" + v
				}
			}
		}
	}
	return res
}

func sanitize(s string) string {
	var b strings.Builder
	for _, c := range s {
		switch {
		case c >= 'a' && c <= 'z', c >= 'A' && c <= 'Z', c >= '0' && c <= '9', c == '.', c == '-', c == '_':
			b.WriteRune(c)
		default:
			b.WriteByte('_')
		}
	}
	if b.Len() > 150 {
		return b.String()[:150]
	}
	return b.String()
}

func sortedKeys[V any](m map[string]V) []string {
	ks := make([]string, 0, len(m))
	for k := range m {
		ks = append(ks, k)
	}
	sort.Strings(ks)
	return ks
}
