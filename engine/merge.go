package main

// State merging at control-flow joins.  At an `if`, both branches are run
// until the immediate post-dominator of the branching block; the states that
// arrive there are merged into one (values become ite-terms, the path
// condition becomes common ∧ (suffix1 ∨ suffix2 ∨ ...)).  Merging is exact;
// when two states differ in engine-level structure (locks, tokens, defers,
// pointers) they are simply kept apart.

import (
	"golang.org/x/tools/go/ssa"
)

// postDominators computes the immediate post-dominator of every block (nil =
// virtual exit).
func postDominators(fn *ssa.Function) map[*ssa.BasicBlock]*ssa.BasicBlock {
	n := len(fn.Blocks)
	// pdom sets as bitsets over block indices; index n = virtual exit
	full := make([]bool, n+1)
	for i := range full {
		full[i] = true
	}
	pd := make([][]bool, n+1)
	for i := 0; i <= n; i++ {
		pd[i] = append([]bool(nil), full...)
	}
	exit := n
	pd[exit] = make([]bool, n+1)
	pd[exit][exit] = true
	succs := func(b *ssa.BasicBlock) []int {
		if len(b.Succs) == 0 {
			return []int{exit}
		}
		var out []int
		for _, s := range b.Succs {
			out = append(out, s.Index)
		}
		return out
	}
	changed := true
	for changed {
		changed = false
		for i := n - 1; i >= 0; i-- {
			b := fn.Blocks[i]
			nw := append([]bool(nil), full...)
			for _, s := range succs(b) {
				for k := range nw {
					nw[k] = nw[k] && pd[s][k]
				}
			}
			nw[i] = true
			for k := range nw {
				if nw[k] != pd[i][k] {
					changed = true
				}
			}
			pd[i] = nw
		}
	}
	res := map[*ssa.BasicBlock]*ssa.BasicBlock{}
	for i, b := range fn.Blocks {
		// immediate post-dominator: the strict post-dominator that is
		// post-dominated by all other strict post-dominators
		var cands []int
		for k := 0; k <= n; k++ {
			if k != i && pd[i][k] {
				cands = append(cands, k)
			}
		}
		best := -1
		for _, c := range cands {
			ok := true
			for _, d := range cands {
				if d != c && !pd[c][d] {
					ok = false
				}
			}
			if ok {
				best = c
			}
		}
		if best >= 0 && best < n {
			res[b] = fn.Blocks[best]
		}
	}
	return res
}

func (u *Unit) ipdom(b *ssa.BasicBlock) *ssa.BasicBlock {
	fn := b.Parent()
	m, ok := u.pdoms[fn]
	if !ok {
		m = postDominators(fn)
		u.pdoms[fn] = m
	}
	return m[b]
}

func sameValue(a, b Value) bool {
	switch x := a.(type) {
	case T:
		y, ok := b.(T)
		return ok && x.S == y.S
	case nil:
		return b == nil
	case Tuple:
		y, ok := b.(Tuple)
		if !ok || len(x) != len(y) {
			return false
		}
		for i := range x {
			if !sameValue(x[i], y[i]) {
				return false
			}
		}
		return true
	}
	return a == b
}

// mergeValue: ite(c, a, b) when both are terms of the same sort.
func mergeValue(c T, a, b Value) (Value, bool) {
	if sameValue(a, b) {
		return a, true
	}
	switch x := a.(type) {
	case T:
		if y, ok := b.(T); ok && x.Sort == y.Sort {
			return Ite(c, x, y), true
		}
	case Tuple:
		y, ok := b.(Tuple)
		if !ok || len(x) != len(y) {
			return nil, false
		}
		out := make(Tuple, len(x))
		for i := range x {
			v, ok := mergeValue(c, x[i], y[i])
			if !ok {
				return nil, false
			}
			out[i] = v
		}
		return out, true
	}
	return nil, false
}

func framesMergeable(a, b *Frame) bool {
	for a != nil && b != nil {
		if a.fn != b.fn || len(a.defers) != len(b.defers) {
			return false
		}
		for i := range a.defers {
			if a.defers[i].instr != b.defers[i].instr {
				return false
			}
		}
		a, b = a.parent, b.parent
	}
	return a == nil && b == nil
}

// mergeStates merges b into a copy of a.  Returns nil if not mergeable.
func (u *Unit) mergeStates(a, b *State) *State {
	if a.panicking != b.panicking || len(a.locks) != len(b.locks) || len(a.loops) != len(b.loops) || !framesMergeable(a.frame, b.frame) {
		return nil
	}
	for i := range a.locks {
		if a.locks[i].key != b.locks[i].key || a.locks[i].mode != b.locks[i].mode {
			return nil
		}
	}
	for i := range a.loops {
		if a.loops[i] != b.loops[i] {
			return nil
		}
	}
	if len(a.tokens) != len(b.tokens) {
		// missing keys count as zero
	}
	for k, v := range a.tokens {
		if b.tokens[k] != v {
			return nil
		}
	}
	for k, v := range b.tokens {
		if a.tokens[k] != v {
			return nil
		}
	}
	// a local promoted to the heap on one side only is promoted on the other
	// side too (same reference constant), so that both keep it in the heap
	for c := range a.promo {
		if !b.promo[c] {
			u.promoteCell(b, c)
		}
	}
	for c := range b.promo {
		if !a.promo[c] {
			u.promoteCell(a, c)
		}
	}
	// common prefix of the path conditions
	n := 0
	for n < len(a.pc) && n < len(b.pc) && a.pc[n].S == b.pc[n].S {
		n++
	}
	// definitional assumptions are hoisted (they only constrain symbols that
	// are fresh on their own path); the rest distinguishes the two states
	var hoisted, ra, rb []T
	for _, t := range a.pc[n:] {
		if definitional[t.S] {
			hoisted = append(hoisted, t)
		} else {
			ra = append(ra, t)
		}
	}
	for _, t := range b.pc[n:] {
		if definitional[t.S] {
			hoisted = append(hoisted, t)
		} else {
			rb = append(rb, t)
		}
	}
	ca := And(ra...)
	cb := And(rb...)
	if ca.S == "true" && cb.S == "true" {
		// identical conditions: nothing distinguishes them
	}
	m := a.clone()
	m.pc = append(append(append([]T(nil), a.pc[:n]...), hoisted...), Or(ca, cb))
	c := ca // selector: state a's suffix holds
	if len(c.S) > bindThreshold {
		sel := u.fresh("sel", SBool)
		m.assumeDef(Eq(sel, ca))
		c = sel
	}
	mv := func(x, y Value) (Value, bool) {
		v, ok := mergeValue(c, x, y)
		if ok {
			v = u.bindValue(m, v, "m")
		}
		return v, ok
	}
	_ = mv
	var pendingPriv []privRef
	// cells
	for k, va := range a.cells {
		vb, ok := b.cells[k]
		if !ok {
			continue // cell created only on a's path: keep a's value (dead on b)
		}
		v, ok := mv(va, vb)
		if !ok {
			return nil
		}
		m.cells[k] = v
		// a slice that is private on both sides stays private after the merge
		if ta, okA := va.(T); okA && ta.Sort == SSlice {
			if tb, okB := vb.(T); okB && ta.S != tb.S && u.isPrivateArr(a, ta) && u.isPrivateArr(b, tb) {
				if tv, okV := v.(T); okV {
					arr := u.fresh("arr.m", SInt)
					m.assumeDef(Eq(arr, Ite(c, T{u.arrOf(ta), SInt}, T{u.arrOf(tb), SInt})))
					u.sliceArr[tv.S] = arr.S
					pendingPriv = append(pendingPriv, privRef{arr, "arr:" + k.elemSort(u), ""})
				}
			}
		}
	}
	for k, vb := range b.cells {
		if _, ok := a.cells[k]; !ok {
			m.cells[k] = vb
		}
	}
	// heaps (views may be in different epochs)
	if a.epoch != b.epoch {
		m.epoch = u.eng.nextEpoch()
	}
	names := map[string]bool{}
	for k := range a.heaps {
		names[k] = true
	}
	for k := range b.heaps {
		names[k] = true
	}
	if a.epoch != b.epoch {
		for _, k := range u.heapOrder {
			names[k] = true
		}
	}
	for k := range names {
		srt, ok := u.heapSorts[k]
		if !ok {
			continue
		}
		ha := u.heapGet(a.view(), k, srt)
		hb := u.heapGet(b.view(), k, srt)
		m.heaps[k] = u.bind(m, Ite(c, ha, hb), k+"@m")
	}
	// counters and flags
	zero := func(k string, other T) T {
		if other.Sort == SBool {
			return False
		}
		if other.Sort == SInt {
			return IntLit(0)
		}
		return u.counterInit(k, other.Sort)
	}
	for k, va := range a.cnt {
		vb, ok := b.cnt[k]
		if !ok {
			vb = zero(k, va)
		}
		m.cnt[k] = u.bind(m, Ite(c, va, vb), "cnt")
	}
	for k, vb := range b.cnt {
		if _, ok := a.cnt[k]; !ok {
			m.cnt[k] = u.bind(m, Ite(c, zero(k, vb), vb), "cnt")
		}
	}
	// materialised literals: keep those both sides agree on
	m.litCache = map[*SliceLit]T{}
	for k, va := range a.litCache {
		if vb, ok := b.litCache[k]; ok && vb.S == va.S {
			m.litCache[k] = va
		}
	}
	// ctx oracle
	for k, va := range a.ctxDone {
		vb, ok := b.ctxDone[k]
		if !ok {
			vb = False
		}
		m.ctxDone[k] = Ite(c, va, vb)
	}
	for k, vb := range b.ctxDone {
		if _, ok := a.ctxDone[k]; !ok {
			m.ctxDone[k] = Ite(c, False, vb)
		}
	}
	// last args / results: merge when shapes agree, otherwise forget
	m.lastArgs = map[string][]Value{}
	for k, xa := range a.lastArgs {
		xb, ok := b.lastArgs[k]
		if !ok {
			// only on a's path: keep (guarded uses are by counters)
			m.lastArgs[k] = xa
			continue
		}
		if len(xa) != len(xb) {
			return nil // different call shapes: keep the paths apart
		}
		out := make([]Value, len(xa))
		for i := range xa {
			v, ok := mergeValue(c, xa[i], xb[i])
			if !ok {
				return nil
			}
			out[i] = v
		}
		m.lastArgs[k] = out
	}
	for k, xb := range b.lastArgs {
		if _, ok := a.lastArgs[k]; !ok {
			m.lastArgs[k] = xb
		}
	}
	for k, g := range b.calleeGhosts {
		if _, ok := m.calleeGhosts[k]; !ok {
			m.calleeGhosts[k] = g
		}
	}
	m.lastRes = map[string]Value{}
	for k, xa := range a.lastRes {
		xb, ok := b.lastRes[k]
		if !ok {
			m.lastRes[k] = xa
			continue
		}
		v, ok := mergeValue(c, xa, xb)
		if !ok {
			return nil
		}
		m.lastRes[k] = v
	}
	for k, xb := range b.lastRes {
		if _, ok := a.lastRes[k]; !ok {
			m.lastRes[k] = xb
		}
	}
	// registers of every frame
	fa, fb, fm := a.frame, b.frame, m.frame
	for fa != nil {
		for k, va := range fa.regs {
			vb, ok := fb.regs[k]
			if !ok {
				continue
			}
			v, ok := mv(va, vb)
			if !ok {
				// registers defined before the branch are identical; a register
				// that differs structurally is only live on one side
				delete(fm.regs, k)
				continue
			}
			fm.regs[k] = v
		}
		for k, vb := range fb.regs {
			if _, ok := fa.regs[k]; !ok {
				fm.regs[k] = vb
			}
		}
		for k, cb := range fb.named {
			if _, ok := fa.named[k]; !ok {
				fm.named[k] = cb
			}
		}
		fa, fb, fm = fa.parent, fb.parent, fm.parent
	}
	// private references: keep those both sides still consider private
	var priv []privRef
	for _, p := range a.private {
		for _, q := range b.private {
			if p.ref.S == q.ref.S && p.heldIn == q.heldIn {
				priv = append(priv, p)
				break
			}
		}
	}
	m.private = append(priv, pendingPriv...)
	if a.acq != b.acq {
		if a.acq == nil || b.acq == nil {
			return nil
		}
	}
	m.trace = append(append([]string(nil), a.trace...), "merge")
	return m
}
