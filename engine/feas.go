package main

// Path-feasibility oracle: a persistent incremental z3 process used only to
// PRUNE infeasible branches during symbolic execution (an `unsat` answer drops
// the branch; `sat`/`unknown`/any error keeps it).  Obligations themselves are
// always discharged by the separate portfolio.

import (
	"bufio"
	"fmt"
	"io"
	"os/exec"
	"strings"
)

type feasSolver struct {
	cmd    *exec.Cmd
	in     io.WriteCloser
	out    *bufio.Reader
	sent   int // number of declarations already sent
	dead   bool
	checks int
	pruned int
}

func startFeas() *feasSolver {
	cmd := exec.Command("z3-new", "-in", "-smt2")
	in, err := cmd.StdinPipe()
	if err != nil {
		return &feasSolver{dead: true}
	}
	outp, err := cmd.StdoutPipe()
	if err != nil {
		return &feasSolver{dead: true}
	}
	cmd.Stderr = nil
	if err := cmd.Start(); err != nil {
		return &feasSolver{dead: true}
	}
	f := &feasSolver{cmd: cmd, in: in, out: bufio.NewReader(outp)}
	fmt.Fprintf(in, "(set-option :global-declarations true)\n(set-option :timeout 400)\n(set-logic ALL)\n%s\n", dropQuantified(preludeSMT))
	return f
}

func (f *feasSolver) close() {
	if f == nil || f.dead {
		return
	}
	f.dead = true
	fmt.Fprintln(f.in, "(exit)")
	f.in.Close()
	f.cmd.Wait()
}

// infeasible reports whether pc ∧ cond is unsatisfiable (definitely).
func (u *Unit) infeasible(st *State, cond T) bool {
	if u.feas == nil {
		u.feas = startFeas()
	}
	f := u.feas
	if f.dead {
		return false
	}
	decls := u.decls.Snapshot()
	var b strings.Builder
	for _, d := range decls[f.sent:] {
		b.WriteString(dropQuantified(d))
		b.WriteByte('\n')
	}
	f.sent = len(decls)
	b.WriteString("(push)\n")
	for _, a := range st.pc {
		if strings.Contains(a.S, "forall") {
			continue // quantified facts are not needed to refute a branch
		}
		fmt.Fprintf(&b, "(assert %s)\n", a.S)
	}
	fmt.Fprintf(&b, "(assert %s)\n(check-sat)\n(pop)\n", cond.S)
	if _, err := io.WriteString(f.in, b.String()); err != nil {
		f.dead = true
		return false
	}
	f.checks++
	for {
		line, err := f.out.ReadString('\n')
		if err != nil {
			f.dead = true
			return false
		}
		line = strings.TrimSpace(line)
		switch line {
		case "unsat":
			f.pruned++
			return true
		case "sat", "unknown":
			return false
		}
		if strings.HasPrefix(line, "(error") {
			// a declaration problem: stop pruning, stay sound
			f.dead = true
			return false
		}
	}
}

// dropQuantified removes quantified assertions (line-wise): the oracle only
// needs quantifier-free reasoning and must answer fast.
func dropQuantified(text string) string {
	var keep []string
	for _, l := range strings.Split(text, "\n") {
		if strings.Contains(l, "forall") || strings.Contains(l, "exists") {
			continue
		}
		keep = append(keep, l)
	}
	return strings.Join(keep, "\n")
}
