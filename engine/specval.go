package main

// Evaluation of specification expressions in a symbolic state.

import (
	"fmt"
	"go/ast"
	"go/constant"
	"go/token"
	"go/types"
	"strconv"

	"golang.org/x/tools/go/ssa"
	"strings"
)

type SV struct {
	V   Value
	Typ types.Type
}

type namedPtr struct {
	name string
	p    *Ptr
}

type SpecEnv struct {
	u     *Unit
	st    *State
	names map[string]SV
	bound map[string]SV
	old   *Snapshot
	acq   *Snapshot
	head  *Snapshot
	pre   *Snapshot
	// current evaluation view
	hv    heapView
	cells map[*Cell]Value
	cnt   map[string]T
	named []map[string]*Cell
	ptrs  []namedPtr
	err   []string
	inOld bool
	ctxDone map[string]T
	calleeFn *ssa.Function // when evaluating a callee's contract at a call site
	typeSubst map[string]types.Type // callee type parameters -> the call's type arguments
	calleeGhost map[string]T // callee-activation ghost state (counters, recorded args) as existential constants
}

func (u *Unit) newEnv(st *State) *SpecEnv {
	e := &SpecEnv{u: u, st: st, old: st.entry, acq: st.acq, hv: st.view(), cells: st.cells, cnt: st.cnt, bound: map[string]SV{}, ctxDone: st.ctxDone}
	for f := st.frame; f != nil; f = f.parent {
		e.named = append(e.named, f.named)
	}
	if len(st.loops) > 0 {
		e.head = st.loops[len(st.loops)-1].head
		e.pre = st.loops[len(st.loops)-1].pre
	}
	return e
}

func (e *SpecEnv) withSnapshot(sn *Snapshot) *SpecEnv {
	n := *e
	if sn == nil {
		return &n
	}
	n.inOld = sn == e.st.entry
	n.hv = sn.view()
	// locals that did not exist yet in the snapshot keep their current value
	merged := make(map[*Cell]Value, len(e.cells))
	for k, v := range e.cells {
		merged[k] = v
	}
	for k, v := range sn.cells {
		merged[k] = v
	}
	n.cells = merged
	n.cnt = sn.cnt
	n.ctxDone = sn.ctxDone
	n.named = []map[string]*Cell{sn.named}
	n.named = append(n.named, e.named...)
	return &n
}

func (e *SpecEnv) fail(format string, args ...interface{}) SV {
	msg := fmt.Sprintf(format, args...)
	e.u.unsupportedf("spec: %s", msg)
	return SV{V: e.u.fresh("specerr", SBool)}
}

func (u *Unit) evalBool(env *SpecEnv, se SE) T {
	v := u.evalSE(env, se)
	t := u.lower(env.st, v.V, v.Typ)
	if t.Sort != SBool {
		u.unsupportedf("spec: expected Bool, got %s in %v", t.Sort, t.S)
		return u.fresh("specerr", SBool)
	}
	return t
}

func (u *Unit) evalTerm(env *SpecEnv, se SE) T {
	v := u.evalSE(env, se)
	return u.lower(env.st, v.V, v.Typ)
}

func (u *Unit) evalSE(env *SpecEnv, se SE) SV {
	switch x := se.(type) {
	case *SEImp:
		return SV{V: Implies(u.evalBool(env, x.A), u.evalBool(env, x.B))}
	case *SEIff:
		return SV{V: Eq(u.evalBool(env, x.A), u.evalBool(env, x.B))}
	case *SEQuant:
		n := *env
		n.bound = map[string]SV{}
		for k, v := range env.bound {
			n.bound[k] = v
		}
		var decl []string
		for _, qv := range x.Vars {
			srt, typ := u.qvarSort(qv.Sort)
			name := "q!" + qv.Name
			n.bound[qv.Name] = SV{V: T{name, srt}, Typ: typ}
			decl = append(decl, fmt.Sprintf("(%s %s)", name, srt))
		}
		body := u.evalBool(&n, x.Body)
		q := "forall"
		if !x.Forall {
			q = "exists"
		}
		if len(x.Triggers) > 0 {
			var ps []string
			for _, tr := range x.Triggers {
				tv := u.evalSE(&n, tr)
				ps = append(ps, u.lower(env.st, tv.V, tv.Typ).S)
			}
			pats := ":pattern (" + strings.Join(ps, " ") + ")"
			for _, g := range x.AltTriggers {
				var gs []string
				for _, tr := range g {
					tv := u.evalSE(&n, tr)
					gs = append(gs, u.lower(env.st, tv.V, tv.Typ).S)
				}
				pats += " :pattern (" + strings.Join(gs, " ") + ")"
			}
			return SV{V: T{fmt.Sprintf("(%s (%s) (! %s %s))", q, strings.Join(decl, " "), body.S, pats), SBool}}
		}
		return SV{V: T{fmt.Sprintf("(%s (%s) %s)", q, strings.Join(decl, " "), body.S), SBool}}
	case *SEGo:
		n := *env
		if len(x.Subs) > 0 {
			n.names = map[string]SV{}
			for k, v := range env.names {
				n.names[k] = v
			}
			for k, sub := range x.Subs {
				n.names[k] = u.evalSE(env, sub)
			}
		}
		return u.evalExpr(&n, x.E)
	}
	return env.fail("unknown spec node %T", se)
}

func (u *Unit) qvarSort(s string) (Sort, types.Type) {
	switch s {
	case "int":
		return SInt, types.Typ[types.Int]
	case "string":
		return SStr, types.Typ[types.String]
	case "bool":
		return SBool, types.Typ[types.Bool]
	case "ref", "type", "fn":
		return SInt, nil
	case "intmap", "strmap_int", "strmap_str", "strset", "strrel":
		return specSort(s), nil
	case "iface", "any":
		return SIface, types.NewInterfaceType(nil, nil)
	}
	if strings.HasPrefix(s, "*") {
		if t := u.eng.lookupStruct(u.pkg, s[1:]); t != nil {
			return SInt, types.NewPointer(t)
		}
	}
	if t := u.eng.lookupType(u.pkg, s); t != nil {
		return u.sortOf(t), t
	}
	return Sort(s), nil
}

func (u *Unit) evalExpr(env *SpecEnv, e ast.Expr) SV {
	switch x := e.(type) {
	case *ast.ParenExpr:
		return u.evalExpr(env, x.X)
	case *ast.BasicLit:
		switch x.Kind {
		case token.INT:
			n, _ := strconv.ParseInt(x.Value, 0, 64)
			return SV{V: IntLit(n), Typ: types.Typ[types.Int]}
		case token.STRING:
			s, _ := strconv.Unquote(x.Value)
			return SV{V: StrLit(s), Typ: types.Typ[types.String]}
		}
	case *ast.Ident:
		return u.evalIdent(env, x.Name)
	case *ast.SelectorExpr:
		// package-qualified constant?
		if id, ok := x.X.(*ast.Ident); ok {
			if _, isLocal := u.lookupName(env, id.Name); !isLocal {
				if pkg := u.eng.importedPkg(u.pkg, id.Name); pkg != nil {
					if c, ok := pkg.Scope().Lookup(x.Sel.Name).(*types.Const); ok {
						return u.constSV(c)
					}
				}
			}
		}
		base := u.evalExpr(env, x.X)
		return u.evalField(env, base, x.Sel.Name)
	case *ast.IndexExpr:
		base := u.evalExpr(env, x.X)
		idx := u.evalExpr(env, x.Index)
		return u.evalIndex(env, base, idx)
	case *ast.SliceExpr:
		base := u.evalExpr(env, x.X)
		sl := u.lower(env.st, base.V, base.Typ)
		lo := IntLit(0)
		hi := app(SInt, "slen", sl)
		if x.Low != nil {
			lo = u.lower(env.st, u.evalExpr(env, x.Low).V, nil)
		}
		if x.High != nil {
			hi = u.lower(env.st, u.evalExpr(env, x.High).V, nil)
		}
		return SV{V: app(SSlice, "mk_slice", app(SInt, "sarr", sl), Add(app(SInt, "soff", sl), lo), Sub(hi, lo), Sub(app(SInt, "scap", sl), lo)), Typ: base.Typ}
	case *ast.StarExpr:
		base := u.evalExpr(env, x.X)
		if p, ok := base.V.(*Ptr); ok {
			return SV{V: u.loadView(env.st, env.hv, env.cells, p), Typ: p.typ}
		}
		if pt, ok := base.Typ.Underlying().(*types.Pointer); ok {
			p := u.ptrOf(env.st, base.V, pt.Elem())
			return SV{V: u.loadView(env.st, env.hv, env.cells, p), Typ: pt.Elem()}
		}
		return env.fail("deref of non-pointer")
	case *ast.UnaryExpr:
		v := u.evalExpr(env, x.X)
		switch x.Op {
		case token.NOT:
			return SV{V: Not(u.lower(env.st, v.V, v.Typ)), Typ: types.Typ[types.Bool]}
		case token.SUB:
			return SV{V: app(SInt, "-", u.lower(env.st, v.V, v.Typ)), Typ: v.Typ}
		case token.AND:
			// &x : pointer to a named local
			if id, ok := x.X.(*ast.Ident); ok {
				if c, ok := u.lookupName(env, id.Name); ok {
					return SV{V: &Ptr{kind: pCell, cell: c, rtyp: c.typ, typ: c.typ}, Typ: types.NewPointer(c.typ)}
				}
			}
			if sel, ok := x.X.(*ast.SelectorExpr); ok {
				base := u.evalExpr(env, sel.X)
				if base.Typ != nil {
					if pt, ok := base.Typ.Underlying().(*types.Pointer); ok {
						if st, ok := pt.Elem().Underlying().(*types.Struct); ok {
							for i := 0; i < st.NumFields(); i++ {
								if st.Field(i).Name() == sel.Sel.Name {
									ft := st.Field(i).Type()
									return SV{V: &Ptr{kind: pField, base: u.lower(env.st, base.V, base.Typ), styp: pt.Elem(), field: i, rtyp: ft, typ: ft}, Typ: types.NewPointer(ft)}
								}
							}
						}
					}
				}
			}
		}
	case *ast.BinaryExpr:
		return u.evalBinary(env, x)
	case *ast.CallExpr:
		return u.evalCall(env, x)
	}
	return env.fail("unsupported expression %T", e)
}

func (u *Unit) lookupName(env *SpecEnv, name string) (*Cell, bool) {
	if i := strings.Index(name, "__"); i > 0 {
		// name__k : the k-th variable of that name in the function (1-based)
		k, err := strconv.Atoi(name[i+2:])
		if err == nil {
			base := name[:i]
			if env.st.frame != nil {
				if n2, ok := u.aliasesOf(env.st.frame.fn)[base]; ok {
					base = n2
				}
			}
			n := 0
			for f := env.st.frame; f != nil; f = f.parent {
				for _, b := range f.fn.Blocks {
					for _, in := range b.Instrs {
						if al, ok := in.(*ssa.Alloc); ok && al.Comment == base {
							n++
							if n == k {
								if p, ok := f.regs[al].(*Ptr); ok && p.kind == pCell {
									return p.cell, true
								}
								return nil, false
							}
						}
					}
				}
				break
			}
			return nil, false
		}
	}
	want := name
	for _, m := range env.named {
		if c, ok := m[want]; ok {
			return c, true
		}
	}
	// compiler-generated names such as jump$1 are written jump_1 in specs
	if i := strings.LastIndex(name, "_"); i > 0 {
		alt := name[:i] + "$" + name[i+1:]
		for _, m := range env.named {
			if c, ok := m[alt]; ok {
				return c, true
			}
		}
	}
	return nil, false
}

func (u *Unit) constSV(c *types.Const) SV {
	switch c.Val().Kind() {
	case constant.Int:
		n, _ := constant.Int64Val(c.Val())
		return SV{V: IntLit(n), Typ: c.Type()}
	case constant.String:
		return SV{V: StrLit(constant.StringVal(c.Val())), Typ: c.Type()}
	case constant.Bool:
		if constant.BoolVal(c.Val()) {
			return SV{V: True, Typ: c.Type()}
		}
		return SV{V: False, Typ: c.Type()}
	}
	return SV{V: u.fresh("const", u.sortOf(c.Type())), Typ: c.Type()}
}

func (u *Unit) evalIdent(env *SpecEnv, name string) SV {
	if v, ok := env.bound[name]; ok {
		return v
	}
	if v, ok := env.names[name]; ok {
		return v
	}
	if v, ok := env.cnt["gv!"+name]; ok {
		return SV{V: v} // specification-only loop variable
	}
	if env.inOld {
		if v, ok := u.entryParams[name]; ok {
			return v
		}
	}
	switch name {
	case "true":
		return SV{V: True, Typ: types.Typ[types.Bool]}
	case "false":
		return SV{V: False, Typ: types.Typ[types.Bool]}
	case "nil":
		return SV{V: nil, Typ: types.Typ[types.UntypedNil]}
	}
	if c, ok := u.lookupName(env, name); ok {
		if _, inCells := env.cells[c]; !inCells && env.st.promo[c] {
			p := u.promotedPtr(&Ptr{kind: pCell, cell: c, rtyp: c.typ, typ: c.typ})
			return SV{V: u.loadView(env.st, env.hv, env.cells, p), Typ: c.typ}
		}
		v, ok := env.cells[c]
		if !ok {
			v = u.zero(c.typ)
		}
		return SV{V: v, Typ: c.typ}
	}
	if u.pkg != nil {
		if obj := u.pkg.Pkg.Scope().Lookup(name); obj != nil {
			if c, ok := obj.(*types.Const); ok {
				return u.constSV(c)
			}
			if gv, ok := obj.(*types.Var); ok && !gv.IsField() {
				// package-level variable: its current value (heap G!<pkg.name>)
				if g, ok := u.pkg.Members[name].(*ssa.Global); ok {
					p := &Ptr{kind: pGlobal, global: g.String(), rtyp: gv.Type(), typ: gv.Type()}
					return SV{V: u.loadView(env.st, env.hv, env.cells, p), Typ: gv.Type()}
				}
			}
		}
	}
	// a local of the function that is not in scope on this path: unconstrained
	base := name
	if i := strings.Index(name, "__"); i > 0 {
		base = name[:i]
	}
	if t := u.localType(base); t != nil {
		return SV{V: u.freshOfType(env.st, "outofscope."+base, t), Typ: t}
	}
	if env.calleeFn != nil {
		// a local of the callee mentioned in its postcondition: existential
		cname := name
		if n2, ok := u.aliasesOf(env.calleeFn)[name]; ok {
			cname = n2 // the callee's local was renamed
		}
		for _, b := range env.calleeFn.Blocks {
			for _, in := range b.Instrs {
				if al, ok := in.(*ssa.Alloc); ok && al.Comment == cname {
					t := al.Type().(*types.Pointer).Elem()
					key := "calleelocal." + name
					if v, ok := env.names[key]; ok {
						return v
					}
					v := SV{V: u.freshOfType(env.st, key, t), Typ: t}
					if env.names != nil {
						env.names[key] = v
					}
					return v
				}
			}
		}
	}
	return env.fail("unknown identifier %q", name)
}

// localType finds the type of a named local variable of the unit's function.
func (u *Unit) localType(name string) types.Type {
	if n2, ok := u.aliasesOf(u.fn)[name]; ok {
		name = n2
	}
	for _, b := range u.fn.Blocks {
		for _, in := range b.Instrs {
			if al, ok := in.(*ssa.Alloc); ok && al.Comment == name {
				return al.Type().(*types.Pointer).Elem()
			}
		}
	}
	return nil
}

func (u *Unit) evalField(env *SpecEnv, base SV, field string) SV {
	t := base.Typ
	if t == nil {
		return env.fail("field %s of untyped value", field)
	}
	if p, ok := base.V.(*Ptr); ok {
		// pointer to a local struct
		st, ok := p.typ.Underlying().(*types.Struct)
		if !ok {
			if pt, ok2 := p.typ.Underlying().(*types.Pointer); ok2 {
				v := u.loadView(env.st, env.hv, env.cells, p)
				return u.evalField(env, SV{V: v, Typ: pt}, field)
			}
			return env.fail("field %s of pointer to non-struct", field)
		}
		for i := 0; i < st.NumFields(); i++ {
			if st.Field(i).Name() == field {
				np := *p
				np.path = append(append([]pstep(nil), p.path...), pstep{field: i, styp: p.typ})
				np.typ = st.Field(i).Type()
				if _, isStruct := np.typ.Underlying().(*types.Struct); isStruct && !isOpaqueStruct(np.typ) {
					return SV{V: u.loadView(env.st, env.hv, env.cells, &np), Typ: np.typ}
				}
				return SV{V: u.loadView(env.st, env.hv, env.cells, &np), Typ: np.typ}
			}
		}
		return env.fail("no field %s", field)
	}
	if pt, ok := t.Underlying().(*types.Pointer); ok {
		st, ok := pt.Elem().Underlying().(*types.Struct)
		if !ok {
			return env.fail("field %s of pointer to non-struct %s", field, pt.Elem())
		}
		ref := u.lower(env.st, base.V, t)
		for i := 0; i < st.NumFields(); i++ {
			if st.Field(i).Name() == field {
				hn, hs, _ := u.fieldHeapName(pt.Elem(), i)
				return SV{V: Select(u.heapGet(env.hv, hn, hs), ref), Typ: st.Field(i).Type()}
			}
		}
		return env.fail("no field %s in %s", field, pt.Elem())
	}
	if st, ok := t.Underlying().(*types.Struct); ok {
		v := u.lower(env.st, base.V, t)
		for i := 0; i < st.NumFields(); i++ {
			if st.Field(i).Name() == field {
				return SV{V: u.structGet(v, t, i), Typ: st.Field(i).Type()}
			}
		}
		return env.fail("no field %s in %s", field, t)
	}
	return env.fail("field %s of %s", field, t)
}

func (u *Unit) evalIndex(env *SpecEnv, base, idx SV) SV {
	if base.Typ == nil {
		// raw SMT array
		a := u.lower(env.st, base.V, nil)
		if strings.HasPrefix(string(a.Sort), "(Array ") {
			return SV{V: Select(a, u.lower(env.st, idx.V, idx.Typ))}
		}
		return env.fail("index of untyped value")
	}
	switch bt := base.Typ.Underlying().(type) {
	case *types.Slice:
		if isByteSlice(base.Typ) {
			return env.fail("index of byte slice")
		}
		sl := u.lower(env.st, base.V, base.Typ)
		i := u.lower(env.st, idx.V, idx.Typ)
		hn, hs := elemHeapName(u.sortOf(bt.Elem()))
		return SV{V: u.selem(u.heapGet(env.hv, hn, hs), sl, i), Typ: bt.Elem()}
	case *types.Map:
		m := u.lower(env.st, base.V, base.Typ)
		ks, vs := u.sortOf(bt.Key()), u.sortOf(bt.Elem())
		k := u.lower(env.st, idx.V, bt.Key())
		dn, ds, vn, vsrt := mapHeapNames(ks, vs)
		return SV{V: u.mapGet(ks, vs, bt.Elem(), u.heapGet(env.hv, dn, ds), u.heapGet(env.hv, vn, vsrt), m, k), Typ: bt.Elem()}
	case *types.Array:
		a := u.lower(env.st, base.V, base.Typ)
		return SV{V: Select(a, u.lower(env.st, idx.V, idx.Typ)), Typ: bt.Elem()}
	}
	return env.fail("index of %s", base.Typ)
}

func (u *Unit) evalBinary(env *SpecEnv, x *ast.BinaryExpr) SV {
	a := u.evalExpr(env, x.X)
	b := u.evalExpr(env, x.Y)
	boolT := types.Typ[types.Bool]
	isNil := func(v SV) bool {
		return v.V == nil && v.Typ == types.Typ[types.UntypedNil]
	}
	if x.Op == token.EQL || x.Op == token.NEQ {
		var r T
		switch {
		case isNil(a) && isNil(b):
			r = True
		case isNil(b):
			r = u.isNilTerm(u.lower(env.st, a.V, a.Typ))
		case isNil(a):
			r = u.isNilTerm(u.lower(env.st, b.V, b.Typ))
		default:
			ta, tb := u.lower(env.st, a.V, a.Typ), u.lower(env.st, b.V, b.Typ)
			if ta.Sort != tb.Sort {
				// ill-sorted on this path (e.g. lastarg of a different callee
				// shape): an unconstrained truth value, provable only vacuously
				r = u.fresh("illsorted", SBool)
			} else if ta.Sort == SIface {
				r = u.eqValues(ta, tb, nil)
			} else {
				r = Eq(ta, tb)
			}
		}
		if x.Op == token.NEQ {
			r = Not(r)
		}
		return SV{V: r, Typ: boolT}
	}
	ta, tb := u.lower(env.st, a.V, a.Typ), u.lower(env.st, b.V, b.Typ)
	switch x.Op {
	case token.LAND:
		return SV{V: And(ta, tb), Typ: boolT}
	case token.LOR:
		return SV{V: Or(ta, tb), Typ: boolT}
	}
	if ta.Sort == SStr {
		switch x.Op {
		case token.ADD:
			return SV{V: app(SStr, "str.++", ta, tb), Typ: a.Typ}
		case token.LSS:
			return SV{V: app(SBool, "str.<", ta, tb), Typ: boolT}
		case token.LEQ:
			return SV{V: app(SBool, "str.<=", ta, tb), Typ: boolT}
		case token.GTR:
			return SV{V: app(SBool, "str.<", tb, ta), Typ: boolT}
		case token.GEQ:
			return SV{V: app(SBool, "str.<=", tb, ta), Typ: boolT}
		}
	}
	switch x.Op {
	case token.ADD:
		return SV{V: Add(ta, tb), Typ: a.Typ}
	case token.SUB:
		return SV{V: Sub(ta, tb), Typ: a.Typ}
	case token.MUL:
		return SV{V: app(SInt, "*", ta, tb), Typ: a.Typ}
	case token.REM:
		return SV{V: app(SInt, "mod", ta, tb), Typ: a.Typ}
	case token.QUO:
		return SV{V: app(SInt, "div", ta, tb), Typ: a.Typ}
	case token.LSS:
		return SV{V: Lt(ta, tb), Typ: boolT}
	case token.LEQ:
		return SV{V: Le(ta, tb), Typ: boolT}
	case token.GTR:
		return SV{V: Lt(tb, ta), Typ: boolT}
	case token.GEQ:
		return SV{V: Le(tb, ta), Typ: boolT}
	}
	return env.fail("unsupported operator %s", x.Op)
}

func (u *Unit) isNilTerm(t T) T {
	switch t.Sort {
	case SIface:
		return Eq(app(SInt, "ity", t), IntLit(0))
	case SSlice:
		return Eq(app(SInt, "sarr", t), IntLit(0))
	case SInt:
		return Eq(t, IntLit(0))
	case SStr:
		return Eq(t, StrLit(""))
	}
	return Eq(t, T{"0", t.Sort})
}

func (u *Unit) resolveType(env *SpecEnv, e ast.Expr) types.Type {
	switch x := e.(type) {
	case *ast.ParenExpr:
		return u.resolveType(env, x.X)
	case *ast.StarExpr:
		if t := u.resolveType(env, x.X); t != nil {
			return types.NewPointer(t)
		}
	case *ast.Ident:
		if env != nil && env.typeSubst != nil {
			if t, ok := env.typeSubst[x.Name]; ok {
				return t
			}
		}
		fn := u.fn
		for fn != nil {
			tps := fn.TypeParams()
			for i := 0; i < tps.Len(); i++ {
				if tps.At(i).Obj().Name() == x.Name {
					return tps.At(i)
				}
			}
			fn = fn.Parent()
		}
		if t := u.eng.lookupType(u.pkg, x.Name); t != nil {
			return t
		}
		switch x.Name {
		case "string":
			return types.Typ[types.String]
		case "int":
			return types.Typ[types.Int]
		case "bool":
			return types.Typ[types.Bool]
		case "any":
			return types.Universe.Lookup("any").Type()
		case "error":
			return types.Universe.Lookup("error").Type()
		}
	case *ast.SelectorExpr:
		if id, ok := x.X.(*ast.Ident); ok {
			if pkg := u.eng.importedPkg(u.pkg, id.Name); pkg != nil {
				if tn, ok := pkg.Scope().Lookup(x.Sel.Name).(*types.TypeName); ok {
					return tn.Type()
				}
			}
		}
	case *ast.IndexExpr:
		g := u.resolveType(env, x.X)
		a := u.resolveType(env, x.Index)
		if g != nil && a != nil {
			if t, err := types.Instantiate(nil, g, []types.Type{a}, false); err == nil {
				return t
			}
		}
	case *ast.FuncType:
		var ps, rs []*types.Var
		if x.Params != nil {
			for _, f := range x.Params.List {
				t := u.resolveType(env, f.Type)
				if t == nil {
					return nil
				}
				ps = append(ps, types.NewVar(0, nil, "", t))
			}
		}
		if x.Results != nil {
			for _, f := range x.Results.List {
				t := u.resolveType(env, f.Type)
				if t == nil {
					return nil
				}
				rs = append(rs, types.NewVar(0, nil, "", t))
			}
		}
		return types.NewSignatureType(nil, nil, nil, types.NewTuple(ps...), types.NewTuple(rs...), false)
	}
	return nil
}

func (u *Unit) evalCall(env *SpecEnv, x *ast.CallExpr) SV {
	name := ""
	if id, ok := x.Fun.(*ast.Ident); ok {
		name = id.Name
	} else if _, ok := x.Fun.(*ast.SelectorExpr); ok {
		// conversion like eventbus.Offset(x): evaluate the argument
		if len(x.Args) == 1 {
			return u.evalExpr(env, x.Args[0])
		}
	}
	arg := func(i int) SV { return u.evalExpr(env, x.Args[i]) }
	argT := func(i int) T {
		v := arg(i)
		return u.lower(env.st, v.V, v.Typ)
	}
	boolT := types.Typ[types.Bool]
	intT := types.Typ[types.Int]
	switch name {
	case "old":
		return u.evalExpr(env.withSnapshot(env.old), x.Args[0])
	case "acq":
		if env.acq == nil {
			return env.fail("acq() outside a critical section")
		}
		return u.evalExpr(env.withSnapshot(env.acq), x.Args[0])
	case "iterold":
		if env.head == nil {
			return env.fail("iterold() outside a loop")
		}
		return u.evalExpr(env.withSnapshot(env.head), x.Args[0])
	case "acqat", "oldat":
		// acqat(s, i): element i (evaluated now) of slice s as it was at acquisition
		sn := env.acq
		if name == "oldat" {
			sn = env.old
		}
		if sn == nil {
			return env.fail("%s() without snapshot", name)
		}
		e2 := env.withSnapshot(sn)
		e2.bound = env.bound
		base := u.evalExpr(e2, x.Args[0])
		idx := arg(1)
		return u.evalIndex(e2, base, idx)
	case "loopentry":
		if env.pre == nil {
			return env.fail("loopentry() outside a loop")
		}
		return u.evalExpr(env.withSnapshot(env.pre), x.Args[0])
	case "len":
		v := arg(0)
		t := u.lower(env.st, v.V, v.Typ)
		switch t.Sort {
		case SSlice:
			return SV{V: app(SInt, "slen", t), Typ: intT}
		case SStr:
			return SV{V: app(SInt, "str.len", t), Typ: intT}
		}
		return env.fail("len of %s", t.Sort)
	case "cap":
		return SV{V: app(SInt, "scap", argT(0)), Typ: intT}
	case "elemrow":
		// elemrow(sliceExpr, ref): the contents (row) of backing array `ref`
		// in the element heap of sliceExpr's element type
		v := arg(0)
		if v.Typ == nil {
			return env.fail("elemrow: untyped slice")
		}
		st, ok := v.Typ.Underlying().(*types.Slice)
		if !ok {
			return env.fail("elemrow: not a slice")
		}
		hn, hs := elemHeapName(u.sortOf(st.Elem()))
		return SV{V: Select(u.heapGet(env.hv, hn, hs), argT(1))}
	case "wfslice":
		return SV{V: app(SBool, "wfSlice", argT(0)), Typ: boolT}
	case "sarr":
		return SV{V: app(SInt, "sarr", argT(0))}
	case "soff":
		return SV{V: app(SInt, "soff", argT(0)), Typ: intT}
	case "ite":
		c, a, b := argT(0), arg(1), arg(2)
		return SV{V: Ite(c, u.lower(env.st, a.V, a.Typ), u.lower(env.st, b.V, b.Typ)), Typ: a.Typ}
	case "ofcall":
		// ofcall(ev, e): evaluate e over the ghost state (event counters,
		// recorded arguments) of the callee activation of the last call
		// matched by event ev
		id, ok := x.Args[0].(*ast.Ident)
		if !ok {
			return env.fail("ofcall(ev, expr)")
		}
		g := env.st.calleeGhosts[id.Name]
		if g == nil {
			g = map[string]T{}
		}
		n := *env
		n.calleeGhost = g
		return u.evalExpr(&n, x.Args[1])
	case "cnt":
		id, ok := x.Args[0].(*ast.Ident)
		if !ok {
			return env.fail("cnt(name) expects an event name")
		}
		if env.calleeGhost != nil {
			if len(x.Args) == 2 {
				return SV{V: Select(u.calleeGhostVal(env, "cntk!"+id.Name, ArrSort(argT(1).Sort, SInt)), argT(1)), Typ: intT}
			}
			c := u.calleeGhostVal(env, "cnt!"+id.Name, SInt)
			return SV{V: c, Typ: intT}
		}
		if len(x.Args) == 2 {
			k := argT(1)
			cur, ok := env.cnt["cntk!"+id.Name]
			if !ok {
				return SV{V: IntLit(0), Typ: intT}
			}
			return SV{V: Select(cur, k), Typ: intT}
		}
		cur, ok := env.cnt["cnt!"+id.Name]
		if !ok {
			cur = IntLit(0)
		}
		return SV{V: cur, Typ: intT}
	case "boundmethod":
		// boundmethod(ev, i, recv, "Name"): argument i of the last call of event ev is
		// the method value recv.Name (a bound-method closure), decided syntactically
		if len(x.Args) != 4 {
			return env.fail("boundmethod(ev, i, recv, \"Name\")")
		}
		id, _ := x.Args[0].(*ast.Ident)
		bl, _ := x.Args[1].(*ast.BasicLit)
		nm, _ := x.Args[3].(*ast.BasicLit)
		if id == nil || bl == nil || nm == nil {
			return env.fail("boundmethod(ev, i, recv, \"Name\")")
		}
		n, _ := strconv.Atoi(bl.Value)
		want, _ := strconv.Unquote(nm.Value)
		as, ok := env.st.lastArgs[id.Name]
		if !ok || n >= len(as) {
			return SV{V: False, Typ: boolT}
		}
		cl, isCl := as[n].(*Closure)
		if !isCl || !strings.HasSuffix(cl.fn.Name(), "$bound") || strings.TrimSuffix(cl.fn.Name(), "$bound") != want || len(cl.binds) != 1 {
			return SV{V: False, Typ: boolT}
		}
		recv := argT(2)
		bound := u.lower(env.st, cl.binds[0], nil)
		return SV{V: Eq(bound, recv), Typ: boolT}
	case "lastarg":
		id, _ := x.Args[0].(*ast.Ident)
		n, _ := strconv.Atoi(x.Args[1].(*ast.BasicLit).Value)
		if id != nil && env.calleeGhost != nil {
			srt := SInt
			var typ types.Type
			if len(x.Args) == 3 {
				if sid, ok := x.Args[2].(*ast.Ident); ok {
					switch sid.Name {
					case "Iface", "String", "Bool", "Int", "Slice":
						srt = specSort(sid.Name)
					default:
						typ = u.resolveType(env, x.Args[2])
					}
				} else {
					typ = u.resolveType(env, x.Args[2])
				}
			}
			if typ != nil {
				srt = u.sortOf(typ)
			}
			return SV{V: u.calleeGhostVal(env, fmt.Sprintf("lastarg!%s!%d", id.Name, n), srt), Typ: typ}
		}
		if id != nil {
			if as, ok := env.st.lastArgs[id.Name]; ok && n < len(as) {
				return SV{V: as[n], Typ: env.u.lastArgType(id.Name, n)}
			}
		}
		// no such call on this path: unconstrained value of the declared sort/type
		srt := SInt
		if len(x.Args) == 3 {
			if sid, ok := x.Args[2].(*ast.Ident); ok {
				switch sid.Name {
				case "Iface", "String", "Bool", "Int", "Slice":
					srt = specSort(sid.Name)
				default:
					if t := u.resolveType(env, x.Args[2]); t != nil {
						return SV{V: u.freshOfType(env.st, "noarg", t), Typ: t}
					}
				}
			} else if t := u.resolveType(env, x.Args[2]); t != nil {
				return SV{V: u.freshOfType(env.st, "noarg", t), Typ: t}
			}
		}
		return SV{V: u.fresh("noarg", srt)}
	case "lastres":
		id, _ := x.Args[0].(*ast.Ident)
		if id != nil && env.calleeGhost != nil {
			srt := SInt
			if len(x.Args) == 2 {
				if sid, ok := x.Args[1].(*ast.Ident); ok {
					srt = specSort(sid.Name)
				}
			}
			return SV{V: u.calleeGhostVal(env, "lastres!"+id.Name, srt)}
		}
		if id != nil {
			if v, ok := env.st.lastRes[id.Name]; ok && v != nil {
				return SV{V: v}
			}
		}
		srt := SInt
		if len(x.Args) == 2 {
			if sid, ok := x.Args[1].(*ast.Ident); ok {
				srt = specSort(sid.Name)
			}
		}
		return SV{V: u.fresh("nores", srt)}
	case "boxOf":
		// boxOf(TYPE, v): the interface value holding v with dynamic type TYPE
		t := u.resolveType(env, x.Args[0])
		if t == nil {
			return env.fail("boxOf: unknown type")
		}
		return SV{V: u.makeInterface(env.st, argT(1), t), Typ: types.Universe.Lookup("any").Type()}
	case "unjsonOfVar", "unjsonOKOfVar":
		// like unjsonOf, for the (possibly anonymous) type of a local variable
		vid, _ := x.Args[0].(*ast.Ident)
		if vid == nil {
			return env.fail("%s(var, data)", name)
		}
		t := u.localType(vid.Name)
		if t == nil {
			return env.fail("%s: no local %s", name, vid.Name)
		}
		data := argT(1)
		if name == "unjsonOKOfVar" {
			return SV{V: u.ghost("unjsonOK", SBool, u.typeID(t), data), Typ: boolT}
		}
		srt := u.sortOf(t)
		fn := "unjson!" + smtName(string(srt))
		u.decls.Add(fn, fmt.Sprintf("(declare-fun %s (Int String) %s)", fn, srt))
		return SV{V: app(srt, fn, u.typeID(t), data), Typ: t}
	case "unjsonOf", "unjsonOKOf":
		// unjsonOf(TYPE, data): the value json.Unmarshal stores for that target type
		t := u.resolveType(env, x.Args[0])
		if t == nil {
			return env.fail("%s: unknown type", name)
		}
		data := argT(1)
		if name == "unjsonOKOf" {
			return SV{V: u.ghost("unjsonOK", SBool, u.typeID(t), data), Typ: boolT}
		}
		srt := u.sortOf(t)
		fn := "unjson!" + smtName(string(srt))
		u.decls.Add(fn, fmt.Sprintf("(declare-fun %s (Int String) %s)", fn, srt))
		return SV{V: app(srt, fn, u.typeID(t), data), Typ: t}
	case "lastresi":
		// lastresi(ev, i, Sort): component i of the (tuple) result of the last call
		id, _ := x.Args[0].(*ast.Ident)
		bl, _ := x.Args[1].(*ast.BasicLit)
		if id != nil && bl != nil && env.calleeGhost != nil {
			srt := SInt
			if len(x.Args) == 3 {
				if sid, ok := x.Args[2].(*ast.Ident); ok {
					srt = specSort(sid.Name)
				}
			}
			return SV{V: u.calleeGhostVal(env, "lastresi!"+id.Name+"!"+bl.Value, srt)}
		}
		if id != nil && bl != nil {
			n, _ := strconv.Atoi(bl.Value)
			if v, ok := env.st.lastRes[id.Name]; ok {
				if tp, ok := v.(Tuple); ok && n < len(tp) {
					return SV{V: tp[n]}
				}
			}
		}
		srt := SInt
		if len(x.Args) == 3 {
			if sid, ok := x.Args[2].(*ast.Ident); ok {
				srt = specSort(sid.Name)
			}
		}
		return SV{V: u.fresh("nores", srt)}
	case "typeOf":
		t := u.resolveType(env, x.Args[0])
		if t == nil {
			return env.fail("typeOf: unknown type")
		}
		return SV{V: u.typeID(t)}
	case "typeOfWith":
		// typeOfWith(G[P], P, term): the type G[term] for a generic named type G
		ix, ok := x.Args[0].(*ast.IndexExpr)
		if !ok {
			return env.fail("typeOfWith: expected G[P]")
		}
		gid, ok := ix.X.(*ast.Ident)
		if !ok {
			return env.fail("typeOfWith: expected G[P]")
		}
		g := u.eng.lookupType(u.pkg, gid.Name)
		if g == nil {
			return env.fail("typeOfWith: unknown generic type %s", gid.Name)
		}
		return SV{V: u.typeCon("tyc!"+smtName(typeKey(g)), []T{argT(2)})}
	case "dynType":
		return SV{V: app(SInt, "ity", argT(0))}
	case "payload":
		return SV{V: app(SInt, "ival", argT(0))}
	case "in":
		k, m := arg(0), arg(1)
		mt, ok := m.Typ.Underlying().(*types.Map)
		if !ok {
			return env.fail("in(k, m): m is not a map")
		}
		mm := u.lower(env.st, m.V, m.Typ)
		dn, ds, _, _ := mapHeapNames(u.sortOf(mt.Key()), u.sortOf(mt.Elem()))
		return SV{V: And(Neq(mm, IntLit(0)), Select(Select(u.heapGet(env.hv, dn, ds), mm), u.lower(env.st, k.V, mt.Key()))), Typ: boolT}
	case "held":
		// held(x.mu) : 0 none, 1 read, 2 write — decided by the path's lockset
		v := arg(0)
		nm, base, ok := u.lockIdent(env.st, v.V)
		if !ok {
			return env.fail("held(): not a mutex expression")
		}
		r := IntLit(0)
		for _, h := range env.st.locks {
			if h.name == nm {
				r = Ite(Eq(h.base, base), IntLit(int64(h.mode)), r)
			}
		}
		return SV{V: r, Typ: intT}
	case "nolocks":
		if len(env.st.locks) == 0 {
			return SV{V: True, Typ: boolT}
		}
		return SV{V: False, Typ: boolT}
	case "fresh":
		r := argT(0)
		if env.old == nil {
			return env.fail("fresh() without entry state")
		}
		al := u.heapGet(env.old.view(), "alloc", ArrSort(SInt, SBool))
		return SV{V: And(Neq(r, IntLit(0)), Not(Select(al, r))), Typ: boolT}
	case "allocated":
		al := u.heapGet(env.hv, "alloc", ArrSort(SInt, SBool))
		return SV{V: Select(al, argT(0)), Typ: boolT}
	case "strContains":
		return SV{V: app(SBool, "str.contains", argT(0), argT(1)), Typ: boolT}
	case "shared":
		// shared(x): x is none of the objects this activation created and has not
		// yet published (M9: what is reachable from lock-protected state is never
		// an object private to another activation)
		x := argT(0)
		var cs []T
		for _, p := range env.st.private {
			if strings.HasPrefix(p.kind, "obj:") {
				cs = append(cs, Neq(x, p.ref))
			}
		}
		return SV{V: And(cs...), Typ: boolT}
	case "panicked":
		if env.st.panicking {
			return SV{V: True, Typ: boolT}
		}
		return SV{V: False, Typ: boolT}
	case "recovered":
		if d, ok := env.cnt["flag!recovered"]; ok {
			return SV{V: d, Typ: boolT}
		}
		return SV{V: False, Typ: boolT}
	case "tokens":
		v := arg(0)
		key := u.wgKey(env.st, v.V)
		return SV{V: IntLit(int64(env.st.tokens[key])), Typ: intT}
	case "ctxSeenDone":
		v := argT(0)
		if d, ok := env.ctxDone[v.S]; ok {
			return SV{V: d, Typ: boolT}
		}
		return SV{V: False, Typ: boolT}
	case "lastCtxCheck":
		if d, ok := env.cnt["flag!lastctxcheck"]; ok {
			return SV{V: d, Typ: boolT}
		}
		return SV{V: False, Typ: boolT}
	case "closed":
		v := argT(0)
		if d, ok := env.cnt["flag!closed:"+v.S]; ok {
			return SV{V: d, Typ: boolT}
		}
		return SV{V: False, Typ: boolT}
	case "waited":
		v := arg(0)
		if d, ok := env.cnt["flag!waited:"+u.wgKey(env.st, v.V)]; ok {
			return SV{V: d, Typ: boolT}
		}
		return SV{V: False, Typ: boolT}
	case "seqeq":
		// seqeq(s, t): same length and same elements.  If an argument is
		// old(e)/acq(e)/loopentry(e)/iterold(e), its elements are read in
		// that snapshot too.
		elemIn := func(e ast.Expr, i SV) (T, T) {
			if c, ok := e.(*ast.CallExpr); ok {
				if id, ok := c.Fun.(*ast.Ident); ok && len(c.Args) == 1 {
					var sn *Snapshot
					switch id.Name {
					case "old":
						sn = env.old
					case "acq":
						sn = env.acq
					case "loopentry":
						sn = env.pre
					case "iterold":
						sn = env.head
					}
					if sn != nil {
						e2 := env.withSnapshot(sn)
						e2.bound = env.bound
						b := u.evalExpr(e2, c.Args[0])
						return u.lower(env.st, b.V, b.Typ), u.lower(env.st, u.evalIndex(e2, b, i).V, nil)
					}
				}
			}
			b := u.evalExpr(env, e)
			return u.lower(env.st, b.V, b.Typ), u.lower(env.st, u.evalIndex(env, b, i).V, nil)
		}
		i := SV{V: T{"q!seqi", SInt}, Typ: intT}
		sa, ea := elemIn(x.Args[0], i)
		sb, eb := elemIn(x.Args[1], i)
		q := fmt.Sprintf("(forall ((q!seqi Int)) (! (=> (and (<= 0 q!seqi) (< q!seqi (slen %s))) (= %s %s)) :pattern (%s) :pattern (%s)))", sa.S, ea.S, eb.S, ea.S, eb.S)
		return SV{V: And(Eq(app(SInt, "slen", sa), app(SInt, "slen", sb)), T{q, SBool}), Typ: boolT}
	}
	if (name == "arrayOf" && len(x.Args) >= 2) || (name == "arrayOf2" && len(x.Args) >= 3) {
		// arrayOf(DEF, keysort, args...): the array A with A[k] == DEF(args..., k)
		// arrayOf2(DEF, ks1, ks2, args...): A[k1][k2] == DEF(args..., k1, k2)
		// (an array comprehension: one constant per distinct defining term)
		nk := 1
		if name == "arrayOf2" {
			nk = 2
		}
		did, _ := x.Args[0].(*ast.Ident)
		if did == nil {
			return env.fail("%s(DEF, keysort..., args...)", name)
		}
		d, ok := u.eng.spec.Defs[did.Name]
		if !ok || len(d.Params) != len(x.Args)-1 {
			return env.fail("%s: %s must be a def with %d parameters", name, did.Name, len(x.Args)-1)
		}
		n := *env
		n.names = map[string]SV{}
		for k, v := range env.names {
			n.names[k] = v
		}
		for i := 1 + nk; i < len(x.Args); i++ {
			n.names[d.Params[i-1-nk]] = arg(i)
		}
		var kss []Sort
		var kvs []T
		for j := 0; j < nk; j++ {
			kid, _ := x.Args[1+j].(*ast.Ident)
			if kid == nil {
				return env.fail("%s: key sort expected", name)
			}
			ks, kt := u.qvarSort(kid.Name)
			kv := T{fmt.Sprintf("q!ak%d", j), ks}
			if nk == 1 {
				kv = T{"q!ak", ks}
			}
			n.names[d.Params[len(d.Params)-nk+j]] = SV{V: kv, Typ: kt}
			kss = append(kss, ks)
			kvs = append(kvs, kv)
		}
		n.bound = map[string]SV{}
		for k, v := range env.bound {
			n.bound[k] = v
		}
		for _, pn := range d.Params {
			delete(n.bound, pn) // the def's parameters shadow enclosing quantified variables
		}
		body := u.evalSE(&n, d.Body)
		bt := u.lower(env.st, body.V, body.Typ)
		key := name + ":" + did.Name + ":" + bt.S
		if c, ok := u.arrayOfCache[key]; ok {
			return SV{V: c}
		}
		if nk == 1 {
			c := u.fresh("cmp."+did.Name, ArrSort(kss[0], bt.Sort))
			u.decls.Add("def:"+c.S, fmt.Sprintf("(assert (forall ((q!ak %s)) (! (= (select %s q!ak) %s) :pattern ((select %s q!ak)))))", kss[0], c.S, bt.S, c.S))
			u.arrayOfCache[key] = c
			return SV{V: c}
		}
		c := u.fresh("cmp."+did.Name, ArrSort(kss[0], ArrSort(kss[1], bt.Sort)))
		u.decls.Add("def:"+c.S, fmt.Sprintf("(assert (forall ((q!ak0 %s) (q!ak1 %s)) (! (= (select (select %s q!ak0) q!ak1) %s) :pattern ((select (select %s q!ak0) q!ak1)))))", kss[0], kss[1], c.S, bt.S, c.S))
		u.arrayOfCache[key] = c
		return SV{V: c}
	}
	// ghost heaps: NAME(key)
	if gh, ok := u.eng.spec.GhostHeaps[name]; ok && len(x.Args) == 1 {
		k := argT(0)
		h := u.heapGet(env.hv, "G!"+gh.Name, ArrSort(gh.Key, gh.Val))
		return SV{V: Select(h, k)}
	}
	if name == "nthres" && len(x.Args) == 2 {
		// nthres(ev, k): the (first) result of the k-th (0-based) call of an event declared `record ... res:Sort`
		id, _ := x.Args[0].(*ast.Ident)
		if id == nil {
			return env.fail("nthres(ev, k)")
		}
		key := "seq!" + id.Name + "!-1"
		srt := SIface
		for _, ev := range u.eng.spec.Events {
			if ev.Name == id.Name && ev.Record {
				if s2, ok := ev.RecordArgs[-1]; ok {
					srt = s2
				}
			}
		}
		if env.calleeGhost != nil {
			return SV{V: Select(u.calleeGhostVal(env, key, ArrSort(SInt, srt)), argT(1))}
		}
		arr, ok := env.cnt[key]
		if !ok {
			arr = u.seqArray(env.st, key, srt)
		}
		return SV{V: Select(arr, argT(1))}
	}
	if name == "nth" && len(x.Args) == 3 {
		// nth(ev, k, i): argument i of the k-th (0-based) call of a recorded event
		id, _ := x.Args[0].(*ast.Ident)
		bl, _ := x.Args[2].(*ast.BasicLit)
		if id == nil || bl == nil {
			return env.fail("nth(ev, k, i)")
		}
		key := "seq!" + id.Name + "!" + bl.Value
		if env.calleeGhost != nil {
			srt := SInt
			nn, _ := strconv.Atoi(bl.Value)
			for _, ev := range u.eng.spec.Events {
				if ev.Name == id.Name && ev.Record {
					if s2, ok := ev.RecordArgs[nn]; ok {
						srt = s2
					}
				}
			}
			return SV{V: Select(u.calleeGhostVal(env, key, ArrSort(SInt, srt)), argT(1))}
		}
		arr, ok := env.cnt[key]
		if !ok {
			srt := SInt
			n, _ := strconv.Atoi(bl.Value)
			for _, ev := range u.eng.spec.Events {
				if ev.Name == id.Name && ev.Record {
					if s2, ok := ev.RecordArgs[n]; ok {
						srt = s2
					}
				}
			}
			arr = u.seqArray(env.st, key, srt)
		}
		return SV{V: Select(arr, argT(1))}
	}
	// spec-level definitions (macros)
	if d, ok := u.eng.spec.Defs[name]; ok {
		n := *env
		n.names = map[string]SV{}
		for k, v := range env.names {
			n.names[k] = v
		}
		for i, p := range d.Params {
			if i < len(x.Args) {
				n.names[p] = arg(i)
			}
		}
		return u.evalSE(&n, d.Body)
	}
	// declared ghost function
	if g, ok := u.eng.spec.Ghosts[name]; ok {
		var args []T
		for i := range x.Args {
			args = append(args, argT(i))
		}
		if !u.decls.Has("ghost:" + name) {
			var as []string
			for _, s := range g.Args {
				as = append(as, string(s))
			}
			u.decls.Add("ghost:"+name, fmt.Sprintf("(declare-fun %s (%s) %s)", name, strings.Join(as, " "), g.Ret))
		}
		if len(args) != len(g.Args) {
			return env.fail("ghost %s: wrong number of arguments", name)
		}
		for i := range args {
			if args[i].Sort != g.Args[i] {
				return SV{V: u.fresh("illsorted", g.Ret)}
			}
		}
		if len(args) == 0 {
			return SV{V: T{name, g.Ret}}
		}
		return SV{V: app(g.Ret, name, args...)}
	}
	// type conversion T(x)
	if len(x.Args) == 1 && name != "" || len(x.Args) == 1 && isTypeExpr(x.Fun) {
		if t := u.resolveType(env, x.Fun); t != nil {
			v := arg(0)
			return SV{V: v.V, Typ: t}
		}
	}
	return env.fail("unknown spec function %q", name)
}

// tokenExpr recognises token(expr[, n]) and returns the canonical credit key.
func (u *Unit) tokenExpr(env *SpecEnv, g *SEGo) (string, int, bool) {
	call, ok := g.E.(*ast.CallExpr)
	if !ok {
		return "", 0, false
	}
	id, ok := call.Fun.(*ast.Ident)
	if !ok || id.Name != "token" {
		return "", 0, false
	}
	n := 1
	if len(call.Args) == 2 {
		if bl, ok := call.Args[1].(*ast.BasicLit); ok {
			n, _ = strconv.Atoi(bl.Value)
		}
	}
	v := u.evalExpr(env, call.Args[0])
	return u.wgKey(env.st, v.V), n, true
}

// closureFacts assumes the declared facts of a function literal when it is
// turned into a value (escapes).  Facts come from `ensures` clauses of the
// literal's block that mention `self`.
func (u *Unit) closureFacts(st *State, c *Closure) {
	fs := u.eng.spec.Funcs[relName(c.fn)]
	if fs == nil || len(fs.Facts) == 0 {
		return
	}
	env := u.newEnv(st)
	env.names = map[string]SV{"self": {V: c.id}}
	for i, fv := range c.fn.FreeVars {
		if i < len(c.binds) {
			if p, ok := c.binds[i].(*Ptr); ok {
				env.names[fv.Name()] = SV{V: u.load(st, p), Typ: fv.Type().(*types.Pointer).Elem()}
			}
		}
	}
	for _, f := range fs.Facts {
		st.assume(u.evalBool(env, f.Expr))
	}
	u.note("closure facts of " + relName(c.fn) + " are justified by that literal's own verified contract (that its captured variables are not reassigned is the package scan closure.captures.stable)")
}

func (u *Unit) lastArgType(ev string, n int) types.Type {
	if ts, ok := u.lastArgTypes[ev]; ok && n < len(ts) {
		return ts[n]
	}
	return nil
}

// lockedExpr recognises locked(&x.mu, mode): "the caller holds this lock".
func (u *Unit) lockedExpr(env *SpecEnv, c *Clause) (name string, base T, mode int, ok bool) {
	g, isGo := c.Expr.(*SEGo)
	if !isGo {
		return
	}
	call, isCall := g.E.(*ast.CallExpr)
	if !isCall {
		return
	}
	id, isId := call.Fun.(*ast.Ident)
	if !isId || id.Name != "locked" || len(call.Args) != 2 {
		return
	}
	bl, isLit := call.Args[1].(*ast.BasicLit)
	if !isLit {
		return
	}
	mode, _ = strconv.Atoi(bl.Value)
	v := u.evalExpr(env, call.Args[0])
	name, base, ok = u.lockIdent(env.st, v.V)
	return
}

func isTypeExpr(e ast.Expr) bool {
	switch x := e.(type) {
	case *ast.ParenExpr:
		return isTypeExpr(x.X)
	case *ast.StarExpr, *ast.FuncType, *ast.IndexExpr:
		return true
	}
	return false
}

// ownedExpr recognises owned(sliceExpr) in an ensures clause.
func (u *Unit) ownedExpr(env *SpecEnv, c *Clause) (SV, bool) {
	g, isGo := c.Expr.(*SEGo)
	if !isGo {
		return SV{}, false
	}
	call, isCall := g.E.(*ast.CallExpr)
	if !isCall {
		return SV{}, false
	}
	id, isId := call.Fun.(*ast.Ident)
	if !isId || id.Name != "owned" || len(call.Args) != 1 {
		return SV{}, false
	}
	return u.evalExpr(env, call.Args[0]), true
}

// calleeGhostVal: an existential constant standing for a piece of the callee
// activation's ghost state (consistent within one call's contract).
func (u *Unit) calleeGhostVal(env *SpecEnv, key string, srt Sort) T {
	if v, ok := env.calleeGhost[key]; ok {
		return v
	}
	v := u.fresh("callee."+key, srt)
	if strings.HasPrefix(key, "cnt!") {
		env.st.assume(Le(IntLit(0), v))
	}
	env.calleeGhost[key] = v
	return v
}

// exclusiveExpr recognises exclusive(ptrExpr): the callee has exclusive access
// to the location the pointer refers to (it is private to the caller).
func (u *Unit) exclusiveExpr(env *SpecEnv, c *Clause) (SV, bool) {
	g, isGo := c.Expr.(*SEGo)
	if !isGo {
		return SV{}, false
	}
	call, isCall := g.E.(*ast.CallExpr)
	if !isCall {
		return SV{}, false
	}
	id, isId := call.Fun.(*ast.Ident)
	if !isId || id.Name != "exclusive" || len(call.Args) != 1 {
		return SV{}, false
	}
	return u.evalExpr(env, call.Args[0]), true
}
