package main

// Library stubs: the ASSUMED contracts of the Go standard library functions
// that ebu calls.  Every stub used is recorded in the evidence trusted base.

import (
	"fmt"
	"go/constant"
	"go/types"
	"strings"

	"golang.org/x/tools/go/ssa"
)

type guardTag struct {
	lock string // "Struct.mu"
	base T
}

func (u *Unit) nonNilIface(st *State, prefix string) T {
	v := u.fresh(prefix, SIface)
	st.assume(Neq(app(SInt, "ity", v), IntLit(0)))
	return v
}

func (u *Unit) ghost(name string, ret Sort, args ...T) T {
	if !u.decls.Has("ghost:" + name) {
		var as []string
		for _, a := range args {
			as = append(as, string(a.Sort))
		}
		u.decls.Add("ghost:"+name, fmt.Sprintf("(declare-fun %s (%s) %s)", name, strings.Join(as, " "), ret))
	}
	if len(args) == 0 {
		return T{name, ret}
	}
	return app(ret, name, args...)
}

func (u *Unit) stubFunc(st *State, instr ssa.Instruction, full string, args []Value, sig *types.Signature, cc *ssa.CallCommon) ([]callRes, bool) {
	lowerArg := func(i int) T { return u.lower(st, args[i], cc.Args[i].Type()) }
	if full == "(*database/sql.Row).Scan" || full == "(*database/sql.Rows).Scan" {
		return u.scanStub(st, instr, lowerArg(0), args[1:]), true
	}
	switch full {
	case "fmt.Errorf":
		u.note("stub fmt.Errorf: returns a non-nil error; message text not modelled")
		return one(st, u.nonNilIface(st, "errorf")), true
	case "errors.New":
		u.note("stub errors.New: returns a non-nil error")
		return one(st, u.nonNilIface(st, "errnew")), true
	case "errors.Is":
		u.note("stub errors.Is: uninterpreted predicate; false for a nil error")
		a, b := lowerArg(0), lowerArg(1)
		r := u.ghost("errorsIs", SBool, a, b)
		st.assume(Implies(Eq(app(SInt, "ity", a), IntLit(0)), Not(r)))
		return one(st, r), true
	case "fmt.Sprintf":
		return one(st, u.sprintf(st, cc, args)), true
	case "time.Now":
		u.note("stub time.Now: arbitrary instant")
		return one(st, u.fresh("now", SInt)), true
	case "time.Since":
		return one(st, u.fresh("since", SInt)), true
	case "(time.Time).IsZero":
		return one(st, u.ghost("timeIsZero", SBool, lowerArg(0))), true
	case "(time.Time).UTC":
		return one(st, u.ghost("timeUTC", SInt, lowerArg(0))), true
	case "(time.Time).Format":
		u.note("stub time.Format/Parse(RFC3339Nano): Parse(Format(t)) denotes the same instant (assumed)")
		return one(st, u.ghost("timeFormat", SStr, lowerArg(0), lowerArg(1))), true
	case "time.Parse":
		s := lowerArg(1)
		okp := u.ghost("timeParseOK", SBool, lowerArg(0), s)
		errv := u.fresh("parseerr", SIface)
		st.assume(Eq(Eq(app(SInt, "ity", errv), IntLit(0)), okp))
		return one(st, Tuple{u.ghost("timeParse", SInt, lowerArg(0), s), errv}), true
	case "(time.Duration).Milliseconds":
		return one(st, u.ghost("durMillis", SInt, lowerArg(0))), true
	case "reflect.TypeOf":
		u.note("stub reflect.TypeOf(x) = dynamic type of x")
		return one(st, app(SInt, "ity", lowerArg(0))), true
	case "reflect.ValueOf":
		return one(st, u.ghost("reflValue", SInt, lowerArg(0))), true
	case "(reflect.Value).Pointer":
		u.note("stub reflect.Value.Pointer: fnptr(v), a function of the value (panics for non-pointer kinds: precondition)")
		return one(st, u.ghost("fnptr", SInt, lowerArg(0))), true
	case "(reflect.Value).Call":
		u.note("stub reflect.Value.Call: invokes the function once (re-entrant, may panic)")
		u.event(st, "reflect.Call", args)
		u.checkUnlocked(st, instr, "call.reflect.Call", "reflect.Value.Call")
		ps := st.clone()
		u.havocAll(ps, "reflect.Call")
		u.havocAll(st, "reflect.Call")
		return []callRes{{st: ps, panicked: true}, {st: st, val: u.fresh("callres", SSlice)}}, true
	case "reflect.New", "reflect.Zero":
		u.note("stub reflect.New/Zero/Value.Interface: reflect.New(t) is a non-nil *t, reflect.Zero(t) a zero t; Interface() boxes them with that dynamic type")
		u.declFun("rvType", "(Int) Int")
		t := lowerArg(0)
		v := u.fresh("rvalue", SInt)
		if full == "reflect.New" {
			st.assume(Eq(app(SInt, "rvType", v), app(SInt, "ptrTo", t)))
		} else {
			st.assume(Eq(app(SInt, "rvType", v), t))
		}
		return one(st, v), true
	case "(reflect.Value).Interface":
		u.declFun("rvType", "(Int) Int")
		v := lowerArg(0)
		r := u.fresh("rviface", SIface)
		// a zero Value of interface kind would box to nil; other kinds keep their type
		st.assume(Implies(Not(app(SBool, "isIfaceType", app(SInt, "rvType", v))), Eq(app(SInt, "ity", r), app(SInt, "rvType", v))))
		return one(st, r), true
	case "encoding/json.Marshal":
		u.note("stub encoding/json.Marshal: total deterministic function json(v) with error flag jsonOK(v); never panics")
		v := lowerArg(0)
		okv := u.ghost("jsonOK", SBool, v)
		errv := u.fresh("marshalerr", SIface)
		st.assume(Eq(Eq(app(SInt, "ity", errv), IntLit(0)), okv))
		data := Ite(okv, u.ghost("json", SStr, v), StrLit(""))
		return one(st, Tuple{data, errv}), true
	case "encoding/json.Unmarshal":
		return u.unmarshal(st, instr, cc, args), true
	case "(*sync.RWMutex).Lock", "(*sync.Mutex).Lock":
		u.lockOp(st, instr, args[0], 2, true)
		return one(st, nil), true
	case "(*sync.RWMutex).RLock":
		u.lockOp(st, instr, args[0], 1, true)
		return one(st, nil), true
	case "(*sync.RWMutex).Unlock", "(*sync.Mutex).Unlock":
		u.lockOp(st, instr, args[0], 2, false)
		return one(st, nil), true
	case "(*sync.RWMutex).RUnlock":
		u.lockOp(st, instr, args[0], 1, false)
		return one(st, nil), true
	case "(*sync.WaitGroup).Add":
		key := u.wgKey(st, args[0])
		n, ok := constInt(cc.Args[1])
		if !ok {
			u.unsupportedf("WaitGroup.Add with non-constant delta")
		}
		st.tokens[key] += int(n)
		u.event(st, "WaitGroup.Add", args)
		return one(st, nil), true
	case "(*sync.WaitGroup).Done":
		key := u.wgKey(st, args[0])
		goal := False
		if st.tokens[key] >= 1 {
			goal = True
		}
		u.addOblig(st, "tokens.done", "", nil, goal, instr, fmt.Sprintf("Done consumes a credit of %s that this activation holds (held: %d)", key, st.tokens[key]))
		st.tokens[key]--
		u.event(st, "WaitGroup.Done", args)
		return one(st, nil), true
	case "(*sync.WaitGroup).Wait":
		u.checkBlocking(st, instr, "WaitGroup.Wait")
		u.event(st, "WaitGroup.Wait", args)
		key := u.wgKey(st, args[0])
		st.cnt["flag!waited:"+key] = True
		u.note("M4: sync.WaitGroup.Wait returns only when the counter is zero; Add happens-before a Wait called after the adder returned")
		u.declFun("wgWaited", "(Int) Bool")
		st.assume(app(SBool, "wgWaited", u.lower(st, args[0], cc.Args[0].Type())))
		return one(st, nil), true
	case "sync/atomic.CompareAndSwapUint32":
		u.note("stub atomic.CompareAndSwapUint32: atomic compare-and-swap (M5)")
		p := u.ptrOf(st, args[0], types.Typ[types.Uint32])
		old, nw := lowerArg(1), lowerArg(2)
		cur := u.lower(st, u.load(st, p), types.Typ[types.Uint32])
		// other goroutines may have changed the cell since any earlier read:
		// the value read by CAS is the current heap value, which is only
		// constrained by what this path has stored.
		succ := Eq(cur, old)
		u.store(st, p, Ite(succ, nw, cur))
		u.event(st, "atomic.CAS", args)
		// conditional event: successful claims
		for _, ev := range u.eng.spec.Events {
			if ev.Pattern == "atomic.CAS.ok" {
				cn := "cnt!" + ev.Name
				c0, ok := st.cnt[cn]
				if !ok {
					c0 = IntLit(0)
				}
				st.cnt[cn] = Add(c0, Ite(succ, IntLit(1), IntLit(0)))
			}
		}
		return one(st, succ), true
	case "context.Background":
		bg := u.ghost("ctxBackground", SIface)
		u.declCtx()
		st.assume(Neq(app(SInt, "ity", bg), IntLit(0)))
		st.assume(Not(app(SBool, "doneAtEntry", bg)))
		return one(st, bg), true
	case "context.WithTimeout", "context.WithCancel", "context.WithValue":
		u.note("stub context.With*: returns a non-nil descendant context")
		u.declCtx()
		parent := lowerArg(0)
		c := u.nonNilIface(st, "ctx")
		st.assume(app(SBool, "descends", c, parent))
		if full == "context.WithValue" {
			return one(st, c), true
		}
		cancel := u.fresh("cancel", SInt)
		st.assume(Neq(cancel, IntLit(0)))
		st.assume(app(SBool, "cancelOf", cancel, c))
		return one(st, Tuple{c, cancel}), true
	case "strconv.FormatInt":
		u.note("stub strconv.FormatInt(p,10)=dec(p), strconv.ParseInt inverse on dec strings (assumed)")
		u.declDec()
		return one(st, app(SStr, "dec", lowerArg(0))), true
	case "strconv.ParseInt":
		u.declDec()
		s := lowerArg(0)
		errv := u.fresh("parseerr", SIface)
		okp := app(SBool, "isDec", s)
		st.assume(Eq(Eq(app(SInt, "ity", errv), IntLit(0)), okp))
		n := u.freshOfType(st, "parsed", types.Typ[types.Int64])
		st.assume(Implies(okp, Eq(n, app(SInt, "undec", s))))
		return one(st, Tuple{n, errv}), true
	case "strings.Contains":
		return one(st, app(SBool, "str.contains", lowerArg(0), lowerArg(1))), true
	case "hash/fnv.New32a":
		u.note("stub hash/fnv: New32a/Write/Sum32 compute fnv32a(bytes) in [0,2^32)")
		r := u.newRef(st, "fnv")
		h := u.heapGet(st.view(), "G!fnv", ArrSort(SInt, SStr))
		u.heapSet(st, "G!fnv", Store(h, r, StrLit("")))
		u.decls.Add("ty!fnv", "(define-fun ty!fnv () Int 999)")
		return one(st, app(SIface, "mk_iface", T{"ty!fnv", SInt}, r)), true
	}
	return nil, false
}

func (u *Unit) declFun(name, sig string) {
	u.decls.Add("ghost:"+name, "(declare-fun "+name+" "+sig+")")
}

func (u *Unit) declCtx() {
	u.declFun("doneAtEntry", "(Iface) Bool")
	u.declFun("descends", "(Iface Iface) Bool")
	u.declFun("cancelOf", "(Int Iface) Bool")
	u.declFun("ctxDoneChan", "(Iface) Int")
	u.declFun("ctxErr", "(Iface) Iface")
	u.declFun("ctxDoneNow", "(Iface) Bool")
	u.declFun("chanClosed", "(Int) Bool")
	u.decls.Add("ctxaxioms", "(assert (forall ((a Iface)) (! (descends a a) :pattern ((descends a a)))))\n(assert (forall ((c Iface)) (! (not (= (ity (ctxErr c)) 0)) :pattern ((ctxErr c)))))\n(assert (forall ((a Iface) (b Iface)) (! (=> (and (descends a b) (doneAtEntry b)) (doneAtEntry a)) :pattern ((descends a b)))))\n(assert (forall ((a Iface) (b Iface) (c Iface)) (! (=> (and (descends a b) (descends b c)) (descends a c)) :pattern ((descends a b) (descends b c)))))")
}

func (u *Unit) declDec() {
	u.declFun("dec", "(Int) String")
	u.declFun("undec", "(String) Int")
	u.declFun("isDec", "(String) Bool")
	u.decls.Add("decaxioms", "(assert (forall ((p Int)) (! (and (= (undec (dec p)) p) (isDec (dec p))) :pattern ((dec p)))))\n(assert (forall ((s String)) (! (=> (isDec s) (= (dec (undec s)) s)) :pattern ((undec s)))))\n(assert (not (isDec \"\")))")
}

func (u *Unit) sprintf(st *State, cc *ssa.CallCommon, args []Value) Value {
	format := ""
	if c, ok := cc.Args[0].(*ssa.Const); ok && c.Value != nil && c.Value.Kind() == constant.String {
		format = constant.StringVal(c.Value)
	}
	var vals []Value
	if sl, ok := args[1].(*SliceLit); ok {
		vals = sl.lit.elems
	}
	payload := func(i int, sort Sort) (T, bool) {
		if i >= len(vals) {
			return T{}, false
		}
		iv, ok := vals[i].(T)
		if !ok || iv.Sort != SIface {
			return T{}, false
		}
		return unboxPayload(u, app(SInt, "ival", iv), sort), true
	}
	switch format {
	case "%020d":
		if n, ok := payload(0, SInt); ok {
			u.note("stub fmt.Sprintf(\"%020d\", n) = pad20(n): the 20-digit zero-padded decimal (assumed); order lemma pad20.mono proved separately")
			u.declFun("pad20", "(Int) String")
			return app(SStr, "pad20", n)
		}
	case "%s/%d":
		a, ok1 := payload(0, SStr)
		b, ok2 := payload(1, SInt)
		if ok1 && ok2 {
			u.declDec()
			u.note("stub fmt.Sprintf(\"%s/%d\", a, i) = a ++ \"/\" ++ dec(i) (assumed)")
			return app(SStr, "str.++", a, StrLit("/"), app(SStr, "dec", b))
		}
	}
	u.note("stub fmt.Sprintf: result text not modelled except for the formats %020d and %s/%d")
	return u.fresh("sprintf", SStr)
}

// unmarshal models json.Unmarshal(data, ptr): deterministic function of
// (target type, data) with an error flag; on error the target may be
// partially written (havoc).
func (u *Unit) unmarshal(st *State, instr ssa.Instruction, cc *ssa.CallCommon, args []Value) []callRes {
	u.note("stub encoding/json.Unmarshal: deterministic function unjson<T>(data) with error flag unjsonOK<T>(data) when the target holds the zero value of T (otherwise an unrelated function of data and the previous value: merge semantics); never panics; on error the target is arbitrary")
	data := u.lower(st, args[0], cc.Args[0].Type())
	var target *Ptr
	var pointee types.Type
	if mi, ok := cc.Args[1].(*ssa.MakeInterface); ok {
		if pt, ok := mi.X.Type().Underlying().(*types.Pointer); ok {
			pointee = pt.Elem()
			target = u.ptrOf(st, u.get(st, mi.X), pointee)
		}
	}
	errv := u.fresh("unmarshalerr", SIface)
	if target == nil {
		u.unsupportedf("json.Unmarshal into a non-pointer-literal target")
		return one(st, errv)
	}
	tid := u.typeID(pointee)
	srt := u.sortOf(pointee)
	// Unmarshal merges into the existing value of the target: only a target
	// holding the zero value of its type yields the pure function unjson<T>(data)
	prev := u.lower(st, u.load(st, target), pointee)
	isZero := u.bind(st, Eq(prev, u.zero(pointee)), "unm.zero")
	fn := "unjson!" + smtName(string(srt))
	u.decls.Add(fn, fmt.Sprintf("(declare-fun %s (Int String) %s)", fn, srt))
	fnInto := "unjsonInto!" + smtName(string(srt))
	u.decls.Add(fnInto, fmt.Sprintf("(declare-fun %s (Int String %s) %s)", fnInto, srt, srt))
	fnOKInto := "unjsonOKInto!" + smtName(string(srt))
	u.decls.Add(fnOKInto, fmt.Sprintf("(declare-fun %s (Int String %s) Bool)", fnOKInto, srt))
	okp := Ite(isZero, u.ghost("unjsonOK", SBool, tid, data), app(SBool, fnOKInto, tid, data, prev))
	st.assume(Eq(Eq(app(SInt, "ity", errv), IntLit(0)), okp))
	good := Ite(isZero, app(srt, fn, tid, data), app(srt, fnInto, tid, data, prev))
	bad := u.fresh("partial", srt)
	if srt == SSlice {
		// a decoded slice is a well-formed slice value
		st.assume(app(SBool, "wfSlice", app(srt, fn, tid, data)))
		st.assume(app(SBool, "wfSlice", app(srt, fnInto, tid, data, prev)))
		st.assume(app(SBool, "wfSlice", bad))
	}
	if sl, isSl := pointee.Underlying().(*types.Slice); isSl && srt == SSlice && !isByteSlice(pointee) {
		// a slice decoded into a nil target is backed by a NEW array, private to this activation
		// (so later opaque calls cannot change its elements); its length and elements are
		// deterministic functions of (type, data): unjsonLen, unjsonElem!σ
		et := sl.Elem()
		es := u.sortOf(et)
		arr := u.newRef(st, "arr.unjson")
		hn, hs := elemHeapName(es)
		h := u.heapGet(st.view(), hn, hs)
		n := u.ghost("unjsonLen", SInt, tid, data)
		st.assume(Le(IntLit(0), n))
		st.assume(Le(n, T{"4611686018427387904", SInt}))
		fe := "unjsonElem!" + smtName(string(es))
		u.decls.Add(fe, fmt.Sprintf("(declare-fun %s (Int String Int) %s)", fe, es))
		h2 := u.fresh("E.unjson", hs)
		st.assumeDef(T{fmt.Sprintf("(forall ((a!q Int)) (! (=> (not (= a!q %s)) (= (select %s a!q) (select %s a!q))) :pattern ((select %s a!q)) :pattern ((select %s a!q))))", arr.S, h2.S, h.S, h2.S, h.S), SBool})
		st.assumeDef(T{fmt.Sprintf("(forall ((i!q Int)) (! (=> (and (<= 0 i!q) (< i!q %s)) (= (select (select %s %s) i!q) (%s %s %s i!q))) :pattern ((select (select %s %s) i!q))))", n.S, h2.S, arr.S, fe, tid.S, data.S, h2.S, arr.S), SBool})
		u.heapSet(st, hn, h2)
		st.private = append(st.private, privRef{arr, "arr:" + string(es), ""})
		fresh := app(SSlice, "mk_slice", arr, IntLit(0), n, n)
		good = Ite(isZero, fresh, app(srt, fnInto, tid, data, prev))
	}
	u.store(st, target, Ite(okp, good, bad))
	return one(st, errv)
}

func (u *Unit) stubMethod(st *State, instr ssa.Instruction, name string, recv T, args []Value, sig *types.Signature) ([]callRes, bool) {
	if strings.HasSuffix(name, ".Scan") {
		return u.scanStub(st, instr, recv, args), true
	}
	switch name {
	case "context.Context.Done":
		u.declCtx()
		return one(st, app(SInt, "ctxDoneChan", recv)), true
	case "context.Context.Err":
		u.declCtx()
		d := u.ctxCheck(st, recv.S)
		return one(st, Ite(d, app(SIface, "ctxErr", recv), T{"nil_iface", SIface})), true
	case "context.Context.Value":
		return one(st, u.fresh("ctxvalue", SIface)), true
	case "reflect.Type.Elem":
		// recv is an Iface only syntactically: reflect.Type is modelled as Int
		return one(st, app(SInt, "elemOf", recv)), true
	case "reflect.Type.String":
		return one(st, u.ghost("tname", SStr, recv)), true
	case "reflect.Type.Kind":
		// reflect.Interface = 20, reflect.Pointer = 22
		k := u.ghost("tkind", SInt, recv)
		st.assume(Eq(Eq(k, IntLit(20)), app(SBool, "isIfaceType", recv)))
		st.assume(Implies(Eq(k, IntLit(22)), Eq(app(SInt, "ptrTo", app(SInt, "elemOf", recv)), recv)))
		return one(st, k), true
	case "reflect.Type.NumIn":
		return one(st, u.ghost("tnumin", SInt, recv)), true
	case "error.Error":
		return one(st, u.ghost("errText", SStr, recv)), true
	case "hash.Hash32.Write":
		r := app(SInt, "ival", recv)
		h := u.heapGet(st.view(), "G!fnv", ArrSort(SInt, SStr))
		b := u.lower(st, args[0], nil)
		u.heapSet(st, "G!fnv", Store(h, r, app(SStr, "str.++", Select(h, r), b)))
		return one(st, Tuple{app(SInt, "str.len", b), T{"nil_iface", SIface}}), true
	case "hash.Hash32.Sum32":
		r := app(SInt, "ival", recv)
		h := u.heapGet(st.view(), "G!fnv", ArrSort(SInt, SStr))
		v := u.ghost("fnv32a", SInt, Select(h, r))
		st.assume(And(Le(IntLit(0), v), Lt(v, T{"4294967296", SInt})))
		return one(st, v), true
	}
	return nil, false
}

// ------------------------------------------------------------------ locks

func (u *Unit) lockIdent(st *State, v Value) (name string, base T, ok bool) {
	p, isPtr := v.(*Ptr)
	if !isPtr {
		return "", T{}, false
	}
	switch p.kind {
	case pField:
		if len(p.path) == 0 {
			return structName(p.styp) + "." + p.styp.Underlying().(*types.Struct).Field(p.field).Name(), p.base, true
		}
	case pDeref:
		if len(p.path) == 1 && p.path[0].field >= 0 {
			return structName(p.rtyp) + "." + p.rtyp.Underlying().(*types.Struct).Field(p.path[0].field).Name(), p.base, true
		}
	}
	return "", T{}, false
}

func (u *Unit) lockLevel(name string) int {
	if l, ok := u.eng.spec.Levels[name]; ok {
		return l
	}
	return 1
}

func (u *Unit) lockOp(st *State, instr ssa.Instruction, v Value, mode int, acquire bool) {
	name, base, ok := u.lockIdent(st, v)
	if !ok {
		u.unsupportedf("lock operation on unrecognised mutex expression %v", v)
		return
	}
	key := name + "@" + base.S
	u.note("M1: sync.Mutex/RWMutex provide mutual exclusion and happens-before (lock-invariant soundness)")
	if acquire {
		lvl := u.lockLevel(name)
		goal := True
		why := ""
		for _, h := range st.locks {
			if h.level >= lvl {
				goal = False
				why = fmt.Sprintf("%s (level %d) acquired while holding %s (level %d)", name, lvl, h.name, h.level)
			}
		}
		u.addOblig(st, "lock.levels."+name, "", u.propsFor("C03"), goal, instr, "lock levels strictly increase: "+why)
		// interference: what the lock guards may have been changed by others
		eff := newEffects()
		u.lockHeaps(eff, name)
		var names []string
		for _, n := range sortedKeys(eff.heaps) {
			u.noteHeap(n, eff.heaps[n])
			names = append(names, n)
		}
		if len(names) > 0 {
			u.havocNames(st, names, "acquire "+name)
		}
		st.locks = append(st.locks, LockHeld{key: key, mode: mode, name: name, level: lvl, base: base})
		for _, li := range u.eng.spec.LockInvs {
			if li.Struct+"."+li.Mu == name {
				env := u.newEnv(st)
				env.names = map[string]SV{li.This: {V: base, Typ: types.NewPointer(u.eng.lookupStruct(u.pkg, li.Struct))}}
				st.assume(u.evalBool(env, li.C.Expr))
			}
		}
		st.acq = st.snapshot()
		u.event(st, "lock:"+name, []Value{base})
		return
	}
	// release: the most recent acquisition of a lock of this name and mode;
	// that it is the same lock instance is an obligation (bases are equal)
	idx := -1
	for i := len(st.locks) - 1; i >= 0; i-- {
		if st.locks[i].name == name && st.locks[i].mode == mode {
			idx = i
			break
		}
	}
	goal := True
	if idx < 0 {
		goal = False
	} else {
		goal = Eq(st.locks[idx].base, base)
	}
	u.addOblig(st, "lock.held."+name, "", u.propsFor("C03"), goal, instr, "unlock of a lock this activation holds in the same mode")
	if idx >= 0 {
		// the critical-section contract first (proved, then available as a
		// fact), then the lock invariant
		u.checkSectionAsserts(st, instr, name)
		if mode == 2 {
			for _, li := range u.eng.spec.LockInvs {
				if li.Struct+"."+li.Mu == name {
					env := u.newEnv(st)
					env.names = map[string]SV{li.This: {V: base, Typ: types.NewPointer(u.eng.lookupStruct(u.pkg, li.Struct))}}
					env.acq = st.acq
					u.addOblig(st, "unlock.inv."+name+"."+labelOr(li.C, "inv"), li.C.Text, li.C.Props, u.evalBool(env, li.C.Expr), instr, "lock invariant re-established at Unlock: "+li.C.Text)
				}
			}
		}
		st.locks = append(st.locks[:idx], st.locks[idx+1:]...)
	}
	u.event(st, "unlock:"+name, []Value{base})
}

// checkCreatedInvariants: every struct allocated by this activation that
// carries lock invariants must satisfy them when the activation ends (or ends a
// loop iteration): lock invariants are assumed at every Lock, so somebody has to
// establish them first - the code that creates the object.
func (u *Unit) checkCreatedInvariants(st *State, where string, at ssa.Instruction, from int) {
	for k, co := range st.created {
		if k < from {
			continue
		}
		for _, li := range u.eng.spec.LockInvs {
			if li.Struct != co.sname {
				continue
			}
			env := u.newEnv(st)
			env.names = map[string]SV{li.This: {V: co.ref, Typ: types.NewPointer(u.eng.lookupStruct(u.pkg, li.Struct))}}
			name := fmt.Sprintf("%s.inv.%s.%s.%s#%d", where, li.Struct, li.Mu, labelOr(li.C, "inv"), u.siteOrdinalAlloc(co.at))
			u.addOblig(st, name, li.C.Text, li.C.Props, u.evalBool(env, li.C.Expr), at, "lock invariant established for the "+li.Struct+" this function creates: "+li.C.Text)
		}
	}
}

// siteOrdinalAlloc numbers the struct allocations of a function in source order.
func (u *Unit) siteOrdinalAlloc(in ssa.Instruction) int {
	fn := in.Parent()
	n := 0
	for _, b := range fn.Blocks {
		for _, i := range b.Instrs {
			if a, ok := i.(*ssa.Alloc); ok && a.Heap {
				if _, isS := a.Type().(*types.Pointer).Elem().Underlying().(*types.Struct); isS {
					if a.Pos() < in.Pos() {
						n++
					}
				}
			}
		}
	}
	return n + 1
}

// checkSectionAsserts evaluates `at unlock:NAME assert` clauses: the
// critical-section contract, relating acq(...) to the state at release.
func (u *Unit) checkSectionAsserts(st *State, instr ssa.Instruction, name string) {
	fs := u.atSpec(st)
	if fs == nil {
		return
	}
	sited := ""
	if instr != nil {
		m := "W"
		if cc, ok := instr.(*ssa.Call); ok {
			if sf := cc.Call.StaticCallee(); sf != nil && strings.HasSuffix(sf.Name(), "RUnlock") {
				m = "R"
			}
		}
		if df, ok := instr.(*ssa.Defer); ok {
			if sf := df.Call.StaticCallee(); sf != nil && strings.HasSuffix(sf.Name(), "RUnlock") {
				m = "R"
			}
		}
		sited = fmt.Sprintf("unlock:%s#%s%d", name, m, u.siteOrdinal(instr))
	}
	for _, c := range fs.Asserts {
		if c.Mark != "unlock:"+name && c.Mark != sited {
			continue
		}
		if u.atHit == nil {
			u.atHit = map[*Clause]bool{}
		}
		u.atHit[c] = true
		if c.GhostTarget != "" {
			u.ghostNew(st, c)
			continue
		}
		env := u.newEnv(st)
		env.acq = st.acq
		g := u.evalBool(env, c.Expr)
		u.addOblig(st, "cs."+labelOr(c, "assert"), c.Text, c.Props, g, instr, "critical-section contract at release of "+name+": "+c.Text)
		st.assume(g)
	}
}

func (u *Unit) specOfFrame(st *State) *FuncSpec {
	if st.frame == nil {
		return u.fs
	}
	if st.frame.fn == u.fn {
		return u.fs
	}
	return u.eng.spec.Funcs[relName(st.frame.fn)]
}

// ghostNew performs a ghost update: the named ghost heap entry becomes a fresh
// value, of which the clause's relation (its defining observations) is assumed.
// Trusted: such a value exists (ghost handles are names for mathematical
// values; the relation only constrains observations of the new handle).
func (u *Unit) ghostNew(st *State, c *Clause) { u.ghostNewEnv(st, c, nil) }

func (u *Unit) ghostNewEnv(st *State, c *Clause, base *SpecEnv) {
	t := c.GhostTarget
	i := strings.Index(t, "(")
	if i < 0 || !strings.HasSuffix(t, ")") {
		u.unsupportedf("bad ghostnew target %q", t)
		return
	}
	gh, ok := u.eng.spec.GhostHeaps[t[:i]]
	if !ok {
		u.unsupportedf("ghostnew: unknown ghost heap %q", t[:i])
		return
	}
	se, err := parseSE(t[i+1 : len(t)-1])
	if err != nil {
		u.unsupportedf("ghostnew: %v", err)
		return
	}
	env := u.newEnv(st)
	env.acq = st.acq
	if base != nil {
		env.names = base.names
	}
	k := u.evalTerm(env, se)
	hn := "G!" + gh.Name
	u.noteHeap(hn, ArrSort(gh.Key, gh.Val))
	h := u.heapGet(st.view(), hn, ArrSort(gh.Key, gh.Val))
	nv := u.fresh("ghostnew."+gh.Name, gh.Val)
	u.heapSet(st, hn, Store(h, k, nv))
	env2 := u.newEnv(st)
	env2.acq = st.acq
	if base != nil {
		env2.names = base.names
	}
	st.assume(u.evalBool(env2, c.Expr))
	u.note("ghost update " + t + ": a value with the stated observations exists (trusted comprehension for ghost handles)")
}

// atSpec: the contract whose `at` clauses apply at the current program point:
// the frame's own, or - inside an inlined literal or helper without a contract -
// the contract of the function being verified.
func (u *Unit) atSpec(st *State) *FuncSpec {
	if fs := u.specOfFrame(st); fs != nil {
		return fs
	}
	return u.fs
}

func (u *Unit) propsFor(ps ...string) []string {
	// implicit concurrency obligations serve the listed properties plus the
	// function's own.
	out := append([]string(nil), ps...)
	for _, p := range u.props {
		dup := false
		for _, q := range out {
			if p == q {
				dup = true
			}
		}
		if !dup {
			out = append(out, p)
		}
	}
	return out
}

// checkUnlocked: a re-entrant callback must be invoked with no lock held.
// Two obligations: no lock of level >= 1 (registry, store, registry of
// upcasters), and no level-0 lock (a Sequential handler's own mutex).
func (u *Unit) checkUnlocked(st *State, instr ssa.Instruction, site, name string) {
	g1, g0 := True, True
	w1, w0 := "", ""
	for _, h := range st.locks {
		if h.level >= 1 {
			g1 = False
			w1 += " " + h.name
		} else {
			g0 = False
			w0 += " " + h.name
		}
	}
	u.addOblig(st, site+".unlocked", "", u.propsFor("C03"), g1, instr, "re-entrant callback "+name+" is invoked with no level>=1 lock held (held:"+w1+")")
	u.addOblig(st, site+".unlocked.l0", "", []string{"C03"}, g0, instr, "re-entrant callback "+name+" is invoked with no level-0 lock held (held:"+w0+")")
}

func (u *Unit) checkBlocking(st *State, instr ssa.Instruction, what string) {
	goal := True
	why := ""
	for _, h := range st.locks {
		if h.level >= 1 {
			goal = False
			why += " " + h.name
		}
	}
	u.addOblig(st, "blocking.unlocked", "", u.propsFor("C03"), goal, instr, "blocking operation ("+what+") with no level>=1 lock held (held:"+why+")")
}

func (u *Unit) guardOf(p *Ptr) (GuardDecl, bool) {
	if p.kind != pField {
		return GuardDecl{}, false
	}
	sn := structName(p.styp)
	fnm := p.styp.Underlying().(*types.Struct).Field(p.field).Name()
	for _, g := range u.eng.spec.Guarded {
		if g.Struct == sn && g.Field == fnm {
			return g, true
		}
	}
	return GuardDecl{}, false
}

func (u *Unit) heldGoal(st *State, lock string, base T, needW bool) T {
	var alts []T
	for _, h := range st.locks {
		if h.name == lock && (!needW || h.mode == 2) {
			alts = append(alts, Eq(h.base, base))
		}
	}
	return Or(alts...)
}

func (u *Unit) checkGuardedRead(st *State, p *Ptr, in ssa.Instruction) {
	g, ok := u.guardOf(p)
	if !ok || u.constructing(st, p.base) {
		return
	}
	lock := g.MuStruct + "." + g.Mu
	u.addOblig(st, "guard.read."+g.Struct+"."+g.Field, "", u.propsFor("C03"), u.heldGoal(st, lock, p.base, false), in, "read of "+g.Struct+"."+g.Field+" with "+lock+" held")
}

func (u *Unit) checkGuardedWrite(st *State, p *Ptr, in ssa.Instruction) {
	g, ok := u.guardOf(p)
	if !ok || u.constructing(st, p.base) {
		return
	}
	lock := g.MuStruct + "." + g.Mu
	u.addOblig(st, "guard.write."+g.Struct+"."+g.Field, "", u.propsFor("C03"), u.heldGoal(st, lock, p.base, true), in, "write of "+g.Struct+"."+g.Field+" with "+lock+" write-held")
}

// constructing: the object is still private to this activation (constructor).
func (u *Unit) constructing(st *State, base T) bool {
	for _, p := range st.private {
		if p.ref.S == base.S {
			return true
		}
	}
	return false
}

func (u *Unit) onFieldWrite(st *State, p *Ptr, fq string) {
	if u.eng.spec.Immutable[fq] && !u.constructing(st, p.base) {
		if !u.eng.spec.InitWriters[relName(u.fn)] {
			u.addOblig(st, "immutable."+fq, "", nil, False, nil, "write to immutable field "+fq+" of a published object")
		}
	}
}

func (u *Unit) checkMapWrite(st *State, m T, in ssa.Instruction) {
	if tag, ok := u.eng.prov[m.S]; ok {
		u.addOblig(st, "guard.mapwrite."+tag.lock, "", u.propsFor("C03"), u.heldGoal(st, tag.lock, tag.base, true), in, "map guarded by "+tag.lock+" written with the lock write-held")
	}
}

// sliceRoot returns the term whose backing array a slice term uses:
// for (mk_slice (sarr X) ...) it is X (recursively), otherwise the term itself.
func sliceRoot(s string) string {
	const p = "(mk_slice (sarr "
	for strings.HasPrefix(s, p) {
		depth, i := 0, len(p)
		for ; i < len(s); i++ {
			if s[i] == '(' {
				depth++
			} else if s[i] == ')' {
				if depth == 0 {
					break
				}
				depth--
			} else if s[i] == ' ' && depth == 0 {
				break
			}
		}
		s = s[len(p):i]
	}
	return s
}

func (u *Unit) checkDerivedUse(st *State, s T, in ssa.Instruction, write bool) {
	tag, ok := u.eng.prov[sliceRoot(s.S)]
	if !ok {
		return
	}
	kind := "read"
	if write {
		kind = "write"
	}
	u.addOblig(st, "guard.derived."+kind+"."+tag.lock, "", u.propsFor("C03"), u.heldGoal(st, tag.lock, tag.base, write), in, "value derived from data guarded by "+tag.lock+" used ("+kind+") with the lock held")
}

func (u *Unit) wgKey(st *State, v Value) string {
	p, ok := v.(*Ptr)
	if !ok {
		return fmt.Sprint(v)
	}
	if p.kind == pCell {
		return "wg:" + p.cell.name
	}
	return "wg:" + p.String()
}

// scanStub models rowScanner.Scan / (*sql.Row).Scan / (*sql.Rows).Scan:
// on success every destination receives the column value of the current row
// (uninterpreted function of result set, row index and column index); on
// failure (non-nil error) the destinations are arbitrary.
func (u *Unit) scanStub(st *State, instr ssa.Instruction, recv T, args []Value) []callRes {
	u.note("stub Scan (database/sql rows): assigns the current row's columns to the destinations, or fails with a non-nil error leaving them arbitrary")
	r := recv
	if recv.Sort == SIface {
		r = app(SInt, "ival", recv)
	}
	u.noteHeap("G!rowpos", ArrSort(SInt, SInt))
	pos := Select(u.heapGet(st.view(), "G!rowpos", ArrSort(SInt, SInt)), r)
	row := Sub(pos, IntLit(1))
	errv := u.fresh("scanerr", SIface)
	fails := u.ghost("scanFails", SBool, r, row)
	st.assume(Eq(Neq(app(SInt, "ity", errv), IntLit(0)), fails))
	var dests []Value
	if len(args) == 1 {
		if sl, ok := args[0].(*SliceLit); ok {
			dests = sl.lit.elems
		}
	}
	if dests == nil {
		u.unsupportedf("Scan with non-literal destination list")
		return one(st, errv)
	}
	for i, d := range dests {
		dt, ok := d.(T)
		if !ok {
			u.unsupportedf("Scan destination %d is not an interface value", i)
			continue
		}
		ds := dt.S
		if def, ok := u.defOf[ds]; ok {
			ds = def
		}
		parts := ctorArgs(ds, "mk_iface")
		if len(parts) != 2 {
			u.unsupportedf("Scan destination %d: unknown pointer in %s", i, dt.S)
			continue
		}
		p, ok := u.eng.iptrs[parts[1]]
		if !ok {
			u.unsupportedf("Scan destination %d: unknown pointer %s (of %s)", i, parts[1], dt.S)
			continue
		}
		srt := u.sortOf(p.typ)
		fn := "scancol" + smtName(string(srt))
		u.decls.Add("ghost:"+fn, fmt.Sprintf("(declare-fun %s (Int Int Int) %s)", fn, srt))
		good := app(srt, fn, r, row, IntLit(int64(i)))
		bad := u.fresh("scanpartial", srt)
		u.store(st, p, Ite(fails, bad, good))
	}
	return u.recordRes(u.event(st, "Scan", append([]Value{recv}, args...)), one(st, errv))
}
