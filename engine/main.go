package main

import (
	"flag"
	"fmt"
	"os"
	"path/filepath"
	"sort"
	"strings"
	"time"
)

var repoRoot = "/repo"
var verifRoot = "/verif"

var pkgDirs = []string{".", "state", "otel", "stores/sqlite", "stores/durablestream"}

func sharedSpecFiles() []string {
	fs, _ := filepath.Glob(filepath.Join(verifRoot, "contracts", "*.spec"))
	sort.Strings(fs)
	return fs
}

func specFilesFor(dir string) []string {
	files := sharedSpecFiles()
	p := filepath.Join(repoRoot, dir, "contracts_verif.go")
	if _, err := os.Stat(p); err == nil {
		files = append(files, p)
	}
	return files
}

func main() {
	if len(os.Args) < 2 {
		fmt.Fprintln(os.Stderr, "usage: ebuverify check|func|list ...")
		os.Exit(2)
	}
	if r := os.Getenv("EBU_REPO"); r != "" {
		repoRoot = r
	}
	if r := os.Getenv("EBU_VERIF"); r != "" {
		verifRoot = r
	}
	switch os.Args[1] {
	case "func":
		cmdFunc(os.Args[2:])
	case "check":
		os.Exit(cmdCheck(os.Args[2:]))
	case "list":
		cmdList()
	case "selftest":
		os.Exit(cmdSelftest(os.Args[2:]))
	case "snapshot-names":
		// records parameter and local names of every function under contract (rename tolerance)
		for _, d := range pkgDirs {
			e, err := LoadPackage(filepath.Join(repoRoot, d), specFilesFor(d))
			if err != nil {
				fmt.Fprintln(os.Stderr, "load:", err)
				os.Exit(2)
			}
			for _, n := range sortedKeys(e.spec.Funcs) {
				if fn := e.funcs[n]; fn != nil && !e.spec.Funcs[n].Trusted {
					recordNames(d, n, fn)
				}
			}
		}
		saveNamesSnapshot()
	default:
		fmt.Fprintln(os.Stderr, "unknown command", os.Args[1])
		os.Exit(2)
	}
}

func cmdFunc(args []string) {
	fl := flag.NewFlagSet("func", flag.ExitOnError)
	dir := fl.String("d", ".", "package dir relative to repo")
	name := fl.String("f", "", "function name")
	verbose := fl.Bool("v", false, "verbose")
	timeout := fl.Int("t", 10, "solver timeout (s)")
	all := fl.Bool("all", false, "run all solvers")
	fl.Parse(args)
	e, err := LoadPackage(filepath.Join(repoRoot, *dir), specFilesFor(*dir))
	if err == nil && *verbose {
		fmt.Println("address-taken fields:", e.addrTakenKeys)
	}
	if err != nil {
		fmt.Fprintln(os.Stderr, "load:", err)
		os.Exit(2)
	}
	e.outDir, _ = os.MkdirTemp("", "ebuverify-func-")
	e.timeoutS = *timeout
	e.allSolvers = *all
	names := []string{*name}
	if *name == "" {
		names = sortedKeys(e.spec.Funcs)
	}
	if *name == "?" {
		for _, n := range sortedKeys(e.funcs) {
			fmt.Println(n)
		}
		return
	}
	if *name == "package" {
		res := e.PackageScans()
		e.DischargeAll(res, nil, 4)
		summarize(res, true)
		return
	}
	for _, n := range names {
		fs := e.spec.Funcs[n]
		if fs == nil || fs.Trusted || e.funcs[n] == nil {
			if *name != "" {
				fmt.Println("no such function or contract:", n)
			}
			continue
		}
		t0 := time.Now()
		res, err := e.VerifyFunc(n)
		if err != nil {
			fmt.Println("ERROR", n, err)
			continue
		}
		t1 := time.Now()
		e.DischargeAll(res, res.Axioms, 16)
		fmt.Printf("  [exec %.1fs, discharge %.1fs]\n", t1.Sub(t0).Seconds(), time.Since(t1).Seconds())
		summarize(res, *verbose)
		t2 := time.Now()
		for _, d := range res.DeadAfterCall {
			fmt.Println("  VACUOUS-BRANCH", d)
		}
		for _, d := range res.DeadBlocks {
			fmt.Println("  DEAD", d)
		}
		for _, c := range evalCovers(res, filepath.Join(e.outDir, sanitize(res.Func)), e.preludeText(res, res.Axioms)) {
			fmt.Println("  VACUOUS", c)
		}
		fmt.Printf("  [%d covers %.1fs]\n", len(res.Covers), time.Since(t2).Seconds())
	}
	fmt.Println("queries in", e.outDir)
}

func summarize(res *UnitResult, verbose bool) {
	byName := map[string][]*Oblig{}
	var order []string
	for _, o := range res.Obligs {
		if _, ok := byName[o.Name]; !ok {
			order = append(order, o.Name)
		}
		byName[o.Name] = append(byName[o.Name], o)
	}
	nfail := 0
	for _, n := range order {
		os := byName[n]
		bad := 0
		var worst *Oblig
		for _, o := range os {
			if o.Res.Verdict != "unsat" {
				bad++
				if worst == nil {
					worst = o
				}
			}
		}
		status := "ok  "
		if bad > 0 {
			status = "FAIL"
			nfail++
		}
		if verbose || bad > 0 {
			fmt.Printf("  %s %-70s paths=%d failing=%d props=%v\n", status, n, len(os), bad, os[0].Props)
			if worst != nil {
				fmt.Printf("       %s [%s by %s] %s\n       at %s\n       trace %s\n", worst.Text, worst.Res.Verdict, worst.Res.Solver, fmt.Sprintf("query #%d", worst.Path), worst.Pos, strings.Join(tail(worst.Trace, 14), " "))
			}
		}
	}
	fmt.Printf("%s: %d obligations (%d path instances), %d failing, %d paths, unsupported=%d\n", res.Func, len(order), len(res.Obligs), nfail, res.Paths, len(res.Unsupported))
	for _, m := range res.Unsupported {
		fmt.Println("   UNSUPPORTED:", m)
	}
}

func tail(s []string, n int) []string {
	if len(s) > n {
		return s[len(s)-n:]
	}
	return s
}

func cmdList() {
	for _, d := range pkgDirs {
		db := NewSpecDB()
		for _, f := range specFilesFor(d) {
			if err := db.LoadFile(f); err != nil {
				fmt.Println("ERROR", err)
			}
		}
		for _, n := range sortedKeys(db.Funcs) {
			fs := db.Funcs[n]
			if strings.HasPrefix(fs.Pos, filepath.Join(repoRoot, d)) {
				fmt.Printf("%-22s %-45s props=%v\n", d, n, fs.Props)
			}
		}
	}
}
