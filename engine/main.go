package main

import (
	"fmt"
	"os"

	"golang.org/x/tools/go/packages"
	"golang.org/x/tools/go/ssa"
	"golang.org/x/tools/go/ssa/ssautil"
)

func main() {
	cfg := &packages.Config{Mode: packages.LoadAllSyntax, Dir: os.Args[1], BuildFlags: []string{"-tags=verif"}}
	pkgs, err := packages.Load(cfg, ".")
	if err != nil {
		panic(err)
	}
	prog, spkgs := ssautil.AllPackages(pkgs, ssa.NaiveForm|ssa.GlobalDebug)
	prog.Build()
	for _, p := range spkgs {
		fmt.Println(p)
	}
}
