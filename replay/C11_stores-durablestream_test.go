package durablestream

// Replay driver for C11 (same scenario as C10), durable-streams store (injected with `go test -overlay`).

import (
	"context"
	"net/http"
	"net/http/httptest"
	"os"
	"strings"
	"testing"

	eventbus "github.com/jilio/ebu"
)

// (*Store).Read#post.C10.ds.read.nogap: Read(o, n) with n smaller than the number
// of events in the chunk the server returned hands out n events but returns the
// chunk's NextOffset, so a chain of reads resumed from the returned next offset
// skips the rest of the chunk.
func TestVerifReplayC11(t *testing.T) {
	ob := os.Getenv("VERIF_OBLIGATION")
	if ob != "" && !strings.Contains(ob, "ds.read.nogap") {
		t.Skip("no replay driver for " + ob)
	}
	mux := http.NewServeMux()
	mux.HandleFunc("/v1/stream/", func(w http.ResponseWriter, r *http.Request) {
		switch r.Method {
		case http.MethodPut:
			w.WriteHeader(http.StatusCreated)
		case http.MethodGet:
			w.Header().Set("Content-Type", "application/json")
			off := r.URL.Query().Get("offset")
			if off == "" || off == "-1" {
				w.Header().Set("Stream-Next-Offset", "100")
				w.Write([]byte(`[{"offset":"10","type":"e","data":{"n":1}},{"offset":"20","type":"e","data":{"n":2}},{"offset":"30","type":"e","data":{"n":3}}]`))
				return
			}
			w.Header().Set("Stream-Next-Offset", "100")
			w.Header().Set("Stream-Up-To-Date", "true")
			w.Write([]byte(`[]`))
		default:
			w.WriteHeader(http.StatusOK)
		}
	})
	srv := httptest.NewServer(mux)
	defer srv.Close()
	store, err := New(srv.URL+"/v1/stream", "replay")
	if err != nil {
		t.Fatal(err)
	}
	ctx := context.Background()
	var got []string
	from := eventbus.OffsetOldest
	for round := 0; round < 5; round++ {
		events, next, err := store.Read(ctx, from, 2)
		if err != nil {
			t.Fatal(err)
		}
		for _, e := range events {
			got = append(got, string(e.Offset))
		}
		if len(events) == 0 {
			break
		}
		from = next
	}
	if strings.Join(got, ",") != "10,20,30" {
		t.Fatalf("chain of Read(limit=2) resumed from the returned next offset delivered %v, want [10 20 30]: the third event of the chunk is skipped", got)
	}
}
